-------------------------------- MODULE Repl --------------------------------
(***************************************************************************)
(* The read-eval-print loop of the `numbat` command (numbat-cli main.rs,    *)
(* Cli::repl_loop) reading lines from a pipe: the composition of            *)
(*   Commands.tla  (is the line a command? which one? are its arguments ok?) *)
(*   Session.tla   (everything else is an input for Context::interpret)      *)
(* with the loop's own state: the session history used by `save`, standard  *)
(* output, the exit status.                                                 *)
(*                                                                         *)
(* One action per line, structured like repl_loop:                          *)
(*   blank line            -> skipped                                       *)
(*   try_run_command(line) -> Continue (list/help/info/clear/save printed    *)
(*                            what they print), Return (quit: leave, status *)
(*                            0), Reset (fresh session), Err (diagnostic on *)
(*                            standard error, the loop goes on), or         *)
(*                            NotACommand ->                                *)
(*   parse_and_evaluate    -> success: prints and result on standard output,*)
(*                            the line is pushed to the session history;    *)
(*                            failure (not a terminal): diagnostic, the     *)
(*                            loop ends, status 1                           *)
(*   end of input          -> leave, status 0                               *)
(*                                                                         *)
(* Properties:                                                             *)
(*   SaveReplayFaithful  replaying a file written by `save` in a fresh      *)
(*                       session gives the session as it was at the `save`  *)
(*                       (C07 with the loop's commands in between)          *)
(*   StatusFaithful      status 0 iff no input failed                       *)
(*   CommandsAreNotCode  a command line never changes the session except    *)
(*                       `reset`, and never appears in the saved history    *)
(* CONSTANT ResetClearsHistory: FALSE is the rule of the pinned tree        *)
(* (`reset` replaces the session but keeps the history, so a later `save`   *)
(* writes definitions the session no longer has); TRUE the repaired rule.   *)
(***************************************************************************)
EXTENDS Session

CONSTANT ResetClearsHistory

Cmd == INSTANCE Commands
ReplCfg == [print |-> TRUE, clear |-> TRUE, save |-> TRUE, reset |-> TRUE, quit |-> TRUE]

\* ------------------------------------------------------------------ lines
InLine(s)   == [k |-> "in", s |-> s, ws |-> << >>]
CmdLine(ws) == [k |-> "cmd", s |-> ParseErr, ws |-> ws]
BlankLine   == [k |-> "blank", s |-> ParseErr, ws |-> << >>]
RECURSIVE JoinWords(_)
JoinWords(ws) == IF ws = << >> THEN "" ELSE IF Len(ws) = 1 THEN ws[1] ELSE ws[1] \o " " \o JoinWords(Tail(ws))
LineText(l) == IF l.k = "in" THEN Text(l.s) ELSE IF l.k = "cmd" THEN JoinWords(l.ws) ELSE ""

\* ---------------------------------------------------------------- process
\* items of standard output: a value line, or what a command printed
Val(n)         == [t |-> "value", n |-> n, what |-> "", names |-> {}]
Listing(w, ns) == [t |-> "names", n |-> 0, what |-> w, names |-> ns]
Note(w)        == [t |-> "note", n |-> 0, what |-> w, names |-> {}]

PreludeFns == {"value_of"}
PreludeUnits == {"zu", "zv", "zw"}
PreludeDims == {"ZL", "ZT", "Scalar"}
NamesOf(st, what) ==
  CASE what = "functions"  -> FnNames(st) \cup PreludeFns
    [] what = "variables"  -> VarNames(st)
    [] what = "units"      -> st.units \cup PreludeUnits
    [] what = "dimensions" -> st.xdims \cup PreludeDims      \* the implicit dimension of `unit x` is not listed (adopted rule)

Boot(lines) == [ st |-> InitSt, lines |-> lines,
                 hist |-> << >>,        \* SessionHistory: the inputs that succeeded, in order (statements)
                 out |-> << >>, errs |-> 0, exited |-> FALSE, status |-> 0,
                 saved |-> << >>,       \* what each `save` wrote: [file, stmts, st (the live session at that moment)]
                 cmds |-> 0 ]

RECURSIVE ValItems(_)
ValItems(ns) == IF ns = << >> THEN << >> ELSE << Val(Head(ns)) >> \o ValItems(Tail(ns))

RunCommand(q, l) ==
  LET r == Cmd!Classify(ReplCfg, l.ws) IN
  CASE r.cls = "error"  -> [q EXCEPT !.errs = @ + 1]
    [] r.cls = "return" -> [q EXCEPT !.exited = TRUE, !.status = 0]
    [] r.cls = "reset"  -> [q EXCEPT !.st = InitSt, !.hist = IF ResetClearsHistory THEN << >> ELSE @]
    [] r.cls = "continue" ->
         IF l.ws[1] = "list"
         THEN IF Len(l.ws) = 1
              THEN [q EXCEPT !.out = @ \o << Listing("functions", NamesOf(q.st, "functions")), Listing("dimensions", NamesOf(q.st, "dimensions")),
                                            Listing("units", NamesOf(q.st, "units")), Listing("variables", NamesOf(q.st, "variables")) >>]
              ELSE [q EXCEPT !.out = Append(@, Listing(l.ws[2], NamesOf(q.st, l.ws[2])))]
         ELSE IF l.ws[1] = "save"
         THEN LET f == IF Len(l.ws) = 1 THEN "history.nbt" ELSE l.ws[2] IN
              [q EXCEPT !.out = Append(@, Note("saved " \o f)), !.saved = Append(@, [file |-> f, stmts |-> q.hist, st |-> q.st])]
         ELSE [q EXCEPT !.out = Append(@, Note(r.what))]
    [] OTHER -> q     \* "not-a-command" cannot happen for the command lines of the alphabet (checked: CmdLinesAreCommands)

RunLine(q) ==
  LET l == Head(q.lines)
      q1 == [q EXCEPT !.lines = Tail(@)] IN
  IF l.k = "blank" THEN q1
  ELSE IF l.k = "cmd" THEN [RunCommand(q1, l) EXCEPT !.cmds = @ + 1]
  ELSE LET r == Submit(q.st, << l.s >>) IN
       IF r.outcome = "ok"
       THEN [q1 EXCEPT !.st = r.st, !.out = @ \o ValItems(r.out) \o (IF r.res # 0 THEN << Val(r.res) >> ELSE << >>),
                       !.hist = Append(@, l.s)]
       ELSE [q1 EXCEPT !.st = r.st, !.errs = @ + 1, !.exited = TRUE, !.status = 1]

CanRun(q) == ~q.exited /\ q.lines # << >>
AtEof(q)  == ~q.exited /\ q.lines = << >>
Eof(q)    == [q EXCEPT !.exited = TRUE, !.status = 0]

VARIABLES script, p
ReplNext == \/ CanRun(p) /\ p' = RunLine(p) /\ UNCHANGED script
            \/ AtEof(p)  /\ p' = Eof(p)     /\ UNCHANGED script

\* -------------------------------------------------------------- properties
RECURSIVE Replay(_, _)
Replay(st, ss) == IF ss = << >> THEN st ELSE Replay(Submit(st, << Head(ss) >>).st, Tail(ss))
\* the observable session without the probes that depend on the resolver's view of already imported modules being
\* re-imported: Obs covers names, values, probes
SaveReplayFaithful == \A i \in 1..Len(p.saved) : Obs(Replay(InitSt, p.saved[i].stmts)) = Obs(p.saved[i].st)
\* every saved line succeeded when it was entered and succeeds again in the replay
SavedLinesSucceed == \A i \in 1..Len(p.saved) :
   LET RECURSIVE AllOk(_, _)
       AllOk(st, ss) == ss = << >> \/ (Submit(st, << Head(ss) >>).outcome = "ok" /\ AllOk(Submit(st, << Head(ss) >>).st, Tail(ss)))
   IN AllOk(InitSt, p.saved[i].stmts)
InputLines(ls) == SelectSeq(ls, LAMBDA l : l.k = "in")
\* status 0 iff no input line that was reached failed; a bad command never ends the loop
StatusFaithful == p.exited => (p.status = 1 <=> p.errs > 0 /\ \E i \in 1..Len(script) : script[i].k = "in" /\ p.status = 1)
CmdLinesAreCommands == \A i \in 1..Len(script) : script[i].k = "cmd" => Cmd!Classify(ReplCfg, script[i].ws).cls # "not-a-command"
=============================================================================
