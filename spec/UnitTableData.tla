--------------------------- MODULE UnitTableData ---------------------------
(***************************************************************************)
(* Format of the data module that lib/checks/c13.py GENERATES from the     *)
(* current tree (nv-prefix dump: the unit table of the standard prelude as *)
(* declared, the other identifiers of the session, prefix spellings the    *)
(* code accepts that PrefixParser!StdPrefixes does not list).  The check   *)
(* runs MC_PrefixTable in a scratch directory in which the generated       *)
(* module replaces this hand-written sample (a handful of prelude units,   *)
(* enough for a smoke run of MC_PrefixTable inside spec/).                 *)
(* Text is a sequence of characters ("U+XXXX" for a non-ASCII character).  *)
(***************************************************************************)
EXTENDS Integers

\* one record per unit: name, canonical (display) alias, declared prefix kinds
GenUnits == <<
  [name |-> <<"m","e","t","r","e">>, canon |-> <<"m">>, metric |-> TRUE, binary |-> FALSE],
  [name |-> <<"m","i","n","u","t","e">>, canon |-> <<"m","i","n">>, metric |-> FALSE, binary |-> FALSE],
  [name |-> <<"i","n","c","h">>, canon |-> <<"i","n">>, metric |-> FALSE, binary |-> FALSE],
  [name |-> <<"b","y","t","e">>, canon |-> <<"B">>, metric |-> TRUE, binary |-> TRUE],
  [name |-> <<"b","i","t">>, canon |-> <<"b","i","t">>, metric |-> TRUE, binary |-> TRUE],
  [name |-> <<"d","e","g","r","e","e">>, canon |-> <<"U+00B0">>, metric |-> FALSE, binary |-> FALSE] >>

\* one record per alias: text, unit (index into GenUnits), accepted prefix forms
GenAliases == <<
  [text |-> <<"m","e","t","r","e">>, u |-> 1, short |-> FALSE, long |-> TRUE],
  [text |-> <<"m","e","t","e","r">>, u |-> 1, short |-> FALSE, long |-> TRUE],
  [text |-> <<"m">>, u |-> 1, short |-> TRUE, long |-> FALSE],
  [text |-> <<"m","i","n","u","t","e">>, u |-> 2, short |-> FALSE, long |-> TRUE],
  [text |-> <<"m","i","n">>, u |-> 2, short |-> FALSE, long |-> FALSE],
  [text |-> <<"i","n","c","h">>, u |-> 3, short |-> FALSE, long |-> TRUE],
  [text |-> <<"i","n">>, u |-> 3, short |-> FALSE, long |-> FALSE],
  [text |-> <<"b","y","t","e">>, u |-> 4, short |-> FALSE, long |-> TRUE],
  [text |-> <<"B">>, u |-> 4, short |-> TRUE, long |-> FALSE],
  [text |-> <<"b","i","t">>, u |-> 5, short |-> FALSE, long |-> TRUE],
  [text |-> <<"d","e","g","r","e","e">>, u |-> 6, short |-> FALSE, long |-> TRUE],
  [text |-> <<"U+00B0">>, u |-> 6, short |-> FALSE, long |-> FALSE] >>

\* identifiers of the session that are not units (variables, functions)
GenOthers == { <<"p","i">>, <<"s","q","r","t">> }

\* prefix table entries (format of PrefixParser!StdPrefixes) accepted by the code but missing in StdPrefixes
GenExtraPrefixes == << >>
=============================================================================
