------------------------------ MODULE MC_Grammar ------------------------------
(***************************************************************************)
(* C10, exhaustive part: ALL token sequences of length <= MaxLen over       *)
(* sub-alphabets of the operator alphabet                                  *)
(*   num id ( ) + - * / per ^ ! ² -> < == && || if then else |> , .        *)
(*   (plus [ ] true in the last alphabets).                                *)
(* For each sequence TLC prints the tokens and Parse(tokens) (a tree or     *)
(* REJECT) as one CASE line; the harness writes the tokens in every         *)
(* spelling class and whitespace style and runs the real parser (G).        *)
(* Checked on the specification itself (MC):                                *)
(*   ReadingsAgree   the two readings of the precedence table (see          *)
(*                   Grammar.tla) accept the same sequences and give trees  *)
(*                   equal up to re-association of * / and of + -           *)
(*   ParenNeutral    an accepted sequence in parentheses is accepted with   *)
(*                   the same tree                                          *)
(* The i-th token, if it is a number or an identifier, gets the value i     *)
(* (number i, identifier v<i>) so that operands cannot be confused.         *)
(***************************************************************************)
EXTENDS Grammar, TLC, Json

CONSTANTS MaxLen,     \* longest sequence
          Alpha       \* index of the sub-alphabet, or 0 for all of them in one run

\* kinds as written in CASE lines; "uexp2" is the Unicode exponent ², "true" the boolean
Alphabets == <<
  \* 1 powers, factorials, Unicode exponents, unary minus; parentheses and calls
  <<"id", "num", "lp", "rp", "pow", "bang", "uexp2", "minus">>,
  \* 2 the multiplicative levels against powers: juxtaposition, unary minus, per, /, *
  <<"id", "minus", "mul", "div", "per", "pow", "bang", "uexp2">>,
  \* 3 additive against multiplicative, parentheses
  <<"id", "lp", "rp", "minus", "plus", "mul", "div", "per">>,
  \* 4 comparisons and logic
  <<"id", "plus", "minus", "lt", "eq", "bang", "and", "or">>,
  \* 5 logic against conversion, parentheses
  <<"id", "arrow", "or", "and", "eq", "bang", "lp", "rp">>,
  \* 6 conditionals against conversion, logic, addition and |>
  <<"id", "if", "then", "else", "arrow", "or", "plus", "apply">>,
  \* 7 conditionals, |>, calls
  <<"id", "if", "then", "else", "lp", "rp", "apply", "comma">>,
  \* 8 calls, fields, |> and the postfix operators
  <<"id", "lp", "rp", "comma", "dot", "apply", "uexp2", "bang">>,
  \* 9 numbers and fields (lexical neighbourhood of the dot), calls on numbers
  <<"id", "num", "dot", "lp", "rp", "comma", "minus", "mul">>,
  \* 10 lists and booleans under juxtaposition and calls
  <<"id", "true", "lb", "rb", "comma", "mul", "lp", "rp">>,
  \* 11 conversion against arithmetic and comparison, per against unary minus
  <<"id", "num", "arrow", "lt", "minus", "div", "per", "pow">> >>

NAlpha == Len(Alphabets)

ToTok(kind, i) ==
  CASE kind = "num"   -> Tok("num", ToString(i))
    [] kind = "id"    -> Tok("id", "v" \o ToString(i))
    [] kind = "uexp2" -> Tok("uexp", "2")
    [] kind = "true"  -> Tok("bool", "true")
    [] OTHER          -> Tok(kind, "")

Toks(ks) == [i \in 1..Len(ks) |-> ToTok(ks[i], i)]

\* "id:v1 minus num:3"
TokStr(t) == IF t.v = "" THEN t.k ELSE t.k \o ":" \o t.v
RECURSIVE TokSeqStr(_)
TokSeqStr(ts) == IF ts = << >> THEN "" ELSE IF Len(ts) = 1 THEN TokStr(ts[1])
                 ELSE TokStr(ts[1]) \o " " \o TokSeqStr(Tail(ts))

VARIABLES al,   \* alphabet in use
          ks    \* sequence of kinds
vars == <<al, ks>>

Init == /\ al \in (IF Alpha = 0 THEN 1..NAlpha ELSE {Alpha})
        /\ ks = << >>
Next == /\ Len(ks) < MaxLen
        /\ \E i \in 1..Len(Alphabets[al]) : ks' = Append(ks, Alphabets[al][i])
        /\ UNCHANGED al
Spec == Init /\ [][Next]_vars

-----------------------------------------------------------------------------
\* MC: properties of the specification (ReadingsAgreeInv, ParenNeutral), and
\* G: one CASE line per sequence.  One invariant, so that every sequence is parsed once.
ReadingsAgreeInv == ReadingsAgree(Toks(ks))

ParenNeutral == LET ts == Toks(ks)
                    p  == Parse(ts)
                IN  p # REJECT => Parse(<<LP>> \o ts \o <<RP>>) = p

EmitCase == ks # << >> =>
   LET ts == Toks(ks) IN PrintT(<<"CASE", ToJson([a |-> al, t |-> TokSeqStr(ts), e |-> Parse(ts)])>>)

\* the three together (same meaning, one evaluation of Parse per reading)
CheckAndEmit ==
   LET ts == Toks(ks)
       p  == ParseM("doc", ts)
       q  == ParseM("table", ts)
   IN  /\ (p = REJECT) = (q = REJECT)                                  \* ReadingsAgree
       /\ (p # REJECT => AssocNormal(p) = AssocNormal(q))
       /\ (p # REJECT => Parse(<<LP>> \o ts \o <<RP>>) = p)             \* ParenNeutral
       /\ (ks # << >> => PrintT(<<"CASE", ToJson([a |-> al, t |-> TokSeqStr(ts), e |-> p])>>))

-----------------------------------------------------------------------------
\* Constants of the Lexer the harness needs: the spelling table and the separator rule
AllSp == [i \in 1..Len(Spellings) |-> Spellings[i]]
UExpTable == [v \in UExpValues |-> UExpSpelling(v)]
Meta == [spellings |-> AllSp, fusing |-> FusingList, uexp |-> UExpTable,
         reserved |-> [w \in ReservedWords |-> TRUE], alphabets |-> Alphabets]
ASSUME PrintT(<<"META", ToJson(Meta)>>)

-----------------------------------------------------------------------------
\* Documented examples: the book says the left text is parsed like the right one.
\* (operations.md: `50 cm / 2 m` is `50 cm / (2 m)`; `1 / meter per second` is
\*  `1 / (meter per second)`; syntax overview: `pi/3 + pi |> cos` is `cos(pi/3 + pi)`;
\*  number-notation.md: `273 |> base(3)` is base(3, 273).)
I(v) == Tok("id", v)
N(v) == Tok("num", v)
T(k) == Tok(k, "")
DocExamples == <<
  [name |-> "50 cm / 2 m",
   a |-> <<N("50"), I("cm"), T("div"), N("2"), I("m")>>,
   b |-> <<N("50"), I("cm"), T("div"), T("lp"), N("2"), I("m"), T("rp")>>],
  [name |-> "1 / meter per second",
   a |-> <<N("1"), T("div"), I("meter"), T("per"), I("second")>>,
   b |-> <<N("1"), T("div"), T("lp"), I("meter"), T("per"), I("second"), T("rp")>>],
  [name |-> "pi/3 + pi |> cos",
   a |-> <<I("pi"), T("div"), N("3"), T("plus"), I("pi"), T("apply"), I("cos")>>,
   b |-> <<I("cos"), T("lp"), I("pi"), T("div"), N("3"), T("plus"), I("pi"), T("rp")>>],
  [name |-> "273 |> base(3)",
   a |-> <<N("273"), T("apply"), I("base"), T("lp"), N("3"), T("rp")>>,
   b |-> <<I("base"), T("lp"), N("3"), T("comma"), N("273"), T("rp")>>],
  [name |-> "2^-3",
   a |-> <<N("2"), T("pow"), T("minus"), N("3")>>,
   b |-> <<N("2"), T("pow"), T("lp"), T("minus"), N("3"), T("rp")>>],
  [name |-> "120 m^3 -> km * m^2",
   a |-> <<N("120"), I("m"), T("pow"), N("3"), T("arrow"), I("km"), T("mul"), I("m"), T("pow"), N("2")>>,
   b |-> <<T("lp"), N("120"), T("mul"), T("lp"), I("m"), T("pow"), N("3"), T("rp"), T("rp"), T("arrow"),
           T("lp"), I("km"), T("mul"), T("lp"), I("m"), T("pow"), N("2"), T("rp"), T("rp")>>],
  [name |-> "if x >= 0 && x <= 1 then 1 else 0",
   a |-> <<T("if"), I("x"), T("ge"), N("0"), T("and"), I("x"), T("le"), N("1"), T("then"), N("1"), T("else"), N("0")>>,
   b |-> <<T("if"), T("lp"), T("lp"), I("x"), T("ge"), N("0"), T("rp"), T("and"), T("lp"), I("x"), T("le"), N("1"), T("rp"), T("rp"),
           T("then"), N("1"), T("else"), N("0")>>],
  [name |-> "v² · sin(2 θ) / g0",
   a |-> <<I("v"), Tok("uexp", "2"), T("mul"), I("sin"), T("lp"), N("2"), I("θ"), T("rp"), T("div"), I("g0")>>,
   b |-> <<T("lp"), T("lp"), I("v"), Tok("uexp", "2"), T("rp"), T("mul"), I("sin"), T("lp"), T("lp"), N("2"), T("mul"), I("θ"), T("rp"), T("rp"), T("rp"),
           T("div"), I("g0")>>] >>

ASSUME \A i \in 1..Len(DocExamples) :
         /\ Parse(DocExamples[i].a) # REJECT
         /\ Parse(DocExamples[i].a) = Parse(DocExamples[i].b)
         /\ PrintT(<<"DOC", ToJson([name |-> DocExamples[i].name, a |-> TokSeqStr(DocExamples[i].a),
                                    b |-> TokSeqStr(DocExamples[i].b), e |-> Parse(DocExamples[i].a)])>>)
=============================================================================
