CONSTANT MaxHist = 2
SPECIFICATION Spec
VIEW View
INVARIANTS TypeOK Unambiguous Disjoint EmitMeta EmitCase
PROPERTIES Stable
CHECK_DEADLOCK FALSE
