----------------------------- MODULE Trace_VM -----------------------------
(***************************************************************************)
(* Trace validation for C09 (J direction).  The trace file (environment    *)
(* variable TRACE, ndjson) holds, for every traced program,                *)
(*   H  the program store DECODED from the real VM after the run (hook     *)
(*      `vm_program`): the chunks that were entered, their instructions    *)
(*      (offset, opcode, operands), the constants / struct infos / foreign *)
(*      callables they refer to, what existed before (g0 stack slots, ...) *)
(*   O  one event per executed opcode: the state BEFORE the opcode - chunk,*)
(*      ip, opcode, stack depth, frame depth, frame pointer, small-value   *)
(*      text of the top of the stack (and the same value as a record)      *)
(*   E  outcome, final stack, result.                                      *)
(* VM.tla is executed on the decoded program: every O event must be        *)
(* exactly the state the model is in, the model's successor is VmStep with *)
(* the value on top of the NEXT event as oracle (used only where the model *)
(* has no rule of its own: foreign functions, arithmetic outside the small *)
(* integers, constants that are units, stack slots of earlier inputs).     *)
(* A program that is not reproduced is reported (BAD line) and skipped;    *)
(* the run ends with a META line once every line has been consumed.        *)
(***************************************************************************)
EXTENDS VM, Json, IOUtils

VARIABLES l,      \* index of the next line to consume
          hdr,    \* line of the current program's H event
          ph,     \* "idle" (an H event is due) | "run" | "done"
          vm,     \* the model VM
          cnt     \* [progs, ops, bad, skipped]
tvars == <<l, hdr, ph, vm, cnt>>

\* the trace is parsed once and kept outside the state (TLC register 1, set while the initial state is computed)
Tr == TLCGet(1)

Prog(h) == [chunks |-> h.chunks, names |-> h.names, consts |-> h.consts, structs |-> h.structs, ffi |-> h.ffi,
            rets |-> << >>, nglobals |-> 0, g0 |-> h.g0, ip0 |-> h.ip0, top0 |-> h.top0]
Idle == [frames |-> << >>, stack |-> << >>, last |-> VOpq(""), haslast |-> FALSE, res |-> VErr("no result"), hasres |-> FALSE,
         halt |-> "", rootok |-> TRUE, calls |-> TRUE, steps |-> 0]

TraceInit == /\ TLCSet(1, ndJsonDeserialize(IOEnv.TRACE))
             /\ l = 1 /\ hdr = 0 /\ ph = "idle" /\ vm = Idle /\ cnt = [progs |-> 0, ops |-> 0, bad |-> 0, skipped |-> 0]

\* line after the E event of the program that line j belongs to
AfterEnd(j) == 1 + CHOOSE m \in j..Len(Tr) : Tr[m].t = "E" /\ \A q \in j..(m - 1) : Tr[q].t # "E"

\* what the model says the real VM looks like before the next opcode
Obs(p) == IF vm.halt # "" \/ vm.frames = << >> \/ VmAtEnd(p, vm)
          THEN [f |-> -1, ip |-> -1, op |-> IF vm.halt # "" THEN "halted:" \o vm.halt ELSE "end-of-code", d |-> Depth(p, vm),
                fd |-> Len(vm.frames), fp |-> -1, top |-> TopText(p, vm)]
          ELSE [f |-> Chunk(p, vm).i, ip |-> Instr(p, vm).o, op |-> Instr(p, vm).op, d |-> Depth(p, vm),
                fd |-> Len(vm.frames), fp |-> Frame(vm).fp, top |-> TopText(p, vm)]
Seen(e) == [f |-> e.f, ip |-> e.ip, op |-> e.op, d |-> e.d, fd |-> e.fd, fp |-> e.fp, top |-> e.top]

Bad(why, want, got) ==
  PrintT(<<"BAD", ToJson([line |-> l, id |-> Tr[hdr].id, label |-> Tr[hdr].label, why |-> why, step |-> vm.steps, want |-> want, got |-> got])>>)
Skip == /\ l' = AfterEnd(l) /\ ph' = "idle" /\ vm' = Idle /\ UNCHANGED hdr
        /\ cnt' = [cnt EXCEPT !.bad = cnt.bad + 1]

\* (e.skip: the input failed and the session rolled the program store back - there is nothing to decode)
Header(e) ==
  IF e.skip THEN /\ l' = AfterEnd(l) /\ hdr' = l /\ UNCHANGED <<ph, vm>> /\ cnt' = [cnt EXCEPT !.skipped = cnt.skipped + 1]
  ELSE /\ hdr' = l /\ l' = l + 1 /\ ph' = "run"
       /\ vm' = [VmInit(Prog(e)) EXCEPT !.haslast = e.haslast, !.last = e.lasttv]
       /\ cnt' = [cnt EXCEPT !.progs = cnt.progs + 1]

OpEvent(e) ==
  LET p == Prog(Tr[hdr])
      want == Obs(p)
      nxt == Tr[l + 1] IN
  IF want # Seen(e) THEN Bad("state before the opcode differs", want, Seen(e)) /\ Skip
  ELSE LET vm2 == IF nxt.t = "E" /\ nxt.trunc THEN [vm EXCEPT !.halt = "trunc"]
                  ELSE IF nxt.t = "E" /\ nxt.out # "ok" THEN [vm EXCEPT !.halt = "error", !.steps = vm.steps + 1]   \* this opcode raised the error
                  ELSE VmStep(p, vm, Oracle(nxt.tv)) IN
       IF vm2.halt = "stuck" THEN Bad("the model has no rule for this step", want, Seen(e)) /\ Skip
       ELSE /\ vm' = vm2 /\ l' = l + 1 /\ UNCHANGED <<hdr, ph>>
            /\ cnt' = [cnt EXCEPT !.ops = cnt.ops + 1]

EndEvent(e) ==
  LET p == Prog(Tr[hdr])
      stk == [j \in 1..Len(vm.stack) |-> ShowV(vm.stack[j])]
      problem ==
        IF e.trunc THEN ""
        ELSE IF e.out = "ok" THEN
             IF vm.halt # "" THEN "the model halted: " \o vm.halt
             ELSE IF ~VmAtEnd(p, vm) \/ Len(vm.frames) # 1 \/ e.fd # 1 THEN "the run is over but the model is not at the end of <main> in the root frame"
             ELSE IF e.ip # IpOffset(p, vm) THEN "final ip differs"
             ELSE IF e.d # Depth(p, vm) THEN "final stack depth differs"
             ELSE IF e.d # e.g THEN "the final stack height is not the number of globals"
             ELSE IF e.full /\ e.stk # stk THEN "final stack contents differ"
             ELSE IF e.hasres # vm.hasres THEN "result presence differs"
             ELSE IF e.hasres /\ vm.res.k # "opq" /\ e.res # ShowV(vm.res) THEN "result differs"
             ELSE ""
        ELSE IF e.out = "panic" THEN "the implementation panicked"
        ELSE IF ~(vm.halt = "error" \/ vm.steps = 0) THEN "the run failed but the model saw no failing opcode"
        ELSE IF e.d # p.g0 \/ e.fd # 1 THEN "after a failed run the stack is not restored"
        ELSE "" IN
  /\ IF problem = "" THEN cnt' = cnt
     ELSE /\ Bad(problem, [d |-> Depth(p, vm), fd |-> Len(vm.frames), stk |-> stk, res |-> IF vm.hasres THEN ShowV(vm.res) ELSE "-", halt |-> vm.halt],
                          [d |-> e.d, fd |-> e.fd, stk |-> e.stk, res |-> e.res, halt |-> e.out])
          /\ cnt' = [cnt EXCEPT !.bad = cnt.bad + 1]
  /\ l' = l + 1 /\ ph' = "idle" /\ vm' = Idle /\ UNCHANGED hdr

TraceNext ==
  \/ /\ ph # "done" /\ l <= Len(Tr)
     /\ LET e == Tr[l] IN
        CASE ph = "idle" /\ e.t = "H" -> Header(e)
          [] ph = "run" /\ e.t = "O" -> OpEvent(e)
          [] ph = "run" /\ e.t = "E" -> EndEvent(e)
          [] OTHER -> PrintT(<<"BAD", ToJson([line |-> l, id |-> -1, label |-> "", why |-> "malformed trace", step |-> 0, want |-> ph, got |-> e.t])>>) /\ FALSE
  \/ /\ ph # "done" /\ l = Len(Tr) + 1
     /\ PrintT(<<"META", ToJson([done |-> ph = "idle", lines |-> Len(Tr), progs |-> cnt.progs, ops |-> cnt.ops, bad |-> cnt.bad, skipped |-> cnt.skipped])>>)
     /\ ph' = "done" /\ UNCHANGED <<l, hdr, vm, cnt>>

TraceSpec == TraceInit /\ [][TraceNext]_tvars
=============================================================================
