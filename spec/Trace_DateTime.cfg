CONSTANTS StrictKind = TRUE
          Ulps = 0
SPECIFICATION TraceSpec
POSTCONDITION TraceAccepted
VIEW Pos
CHECK_DEADLOCK FALSE
