CONSTANTS StrictKind = TRUE
          Ulps = 0
SPECIFICATION TraceSpec
POSTCONDITION TraceAccepted
CHECK_DEADLOCK FALSE
