CONSTANTS MaxLen = 5
          Alpha = 0
SPECIFICATION Spec
INVARIANTS CheckAndEmit
CHECK_DEADLOCK FALSE
