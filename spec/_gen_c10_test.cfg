CONSTANTS MaxLen = 5
          Alpha = 1
SPECIFICATION Spec
INVARIANTS ReadingsAgreeInv ParenNeutral
CHECK_DEADLOCK FALSE
