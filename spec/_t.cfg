CONSTANTS Tier = "quick"
SPECIFICATION Spec
INVARIANTS EmitCase
CHECK_DEADLOCK FALSE
