SPECIFICATION Spec
INVARIANTS StepwiseAgrees RoundTrip EmitCase
CHECK_DEADLOCK FALSE
