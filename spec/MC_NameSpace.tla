---------------------------- MODULE MC_NameSpace ----------------------------
(* Model-checking harness for NameSpace.tla: explores the abstract name-space states (VIEW hides the witness history), *)
(* checks the properties, and prints for every reachable state one CASE line: a history reaching it, the predicted     *)
(* outcome of EVERY statement of the alphabet in that state and the predicted meaning of every probe spelling.         *)
EXTENDS NameSpace

StmtSeq == SetToSeq(Stmts)
ProbeSeq == SetToSeq(ProbeNames)
View == AbsState

EmitMeta == hist = << >> => PrintT(<<"META", ToJson([stmts |-> StmtSeq, probes |-> ProbeSeq])>>)
EmitCase == PrintT(<<"CASE", ToJson([hist |-> hist,
                                     pred |-> [i \in 1..Len(StmtSeq) |-> Apply(StmtSeq[i]).r],
                                     mean |-> [i \in 1..Len(ProbeSeq) |-> Meaning(units, others, ProbeSeq[i])]])>>)
=============================================================================
