----------------------------- MODULE Trace_List -----------------------------
(***************************************************************************)
(* Trace validation for C18 (J direction): every recorded operation on     *)
(* real NumbatList handles must be a step of List!Next whose successor     *)
(* state equals the recorded one (contents, allocation contents, view,     *)
(* strong count, sharing classes) and whose result equals the recorded     *)
(* result; the List invariants are checked in every state of the trace.    *)
(* Trace file: environment variable TRACE (ndjson, one event per line).    *)
(***************************************************************************)
EXTENDS List, Json, IOUtils

\* Strict = TRUE: the recorded internal representation (allocation contents, view, strong count,
\* sharing) must equal the spec's concrete state too (conformance of the mirror);
\* Strict = FALSE: only what C18 talks about - contents, length, equality, results.
CONSTANT Strict

VARIABLES l,    \* index of the next event to consume
          tr    \* the recorded trace (constant)

tvars == <<vars, l, tr>>

TraceInit == /\ Init
             /\ l = 1
             /\ tr = ndJsonDeserialize(IOEnv.TRACE)

\* least live handle sharing h's allocation (how the harness names allocations)
Cls(h) == CHOOSE g \in H : /\ hd[g].live /\ hd[g].a = hd[h].a
                           /\ \A k \in H : (hd[k].live /\ hd[k].a = hd[h].a) => g <= k

ViewOf(h) == IF hd[h].hasview THEN <<hd[h].s, hd[h].e>> ELSE <<>>

\* does the spec's successor state agree with the recorded observation e.hs ?
\* (primes are written on the state functions only: e is the *current* event)
AgreesNext(e) == \A h \in H :
    /\ e.hs[h].live = hd'[h].live
    /\ hd'[h].live =>
         /\ e.hs[h].abs = abs'[h]
         /\ Strict => e.hs[h].abs = Conc(h)'
         /\ e.hs[h].len = Len(abs'[h])
         /\ Strict => /\ e.hs[h].el = El(h)'
                      /\ e.hs[h].view = ViewOf(h)'
                      /\ e.hs[h].rc = heap'[hd'[h].a].rc
                      /\ e.hs[h].cls = Cls(h)'
         /\ \A g \in H : hd'[g].live => (e.eq[h][g] = (abs'[h] = abs'[g]))

Step(e) == \/ e.op = "new" /\ New(e.h)
           \/ e.op = "clone" /\ Clone(e.h, e.g)
           \/ e.op = "drop" /\ Drop(e.h)
           \/ e.op = "tail" /\ TailOp(e.h)
           \/ e.op = "head" /\ HeadOp(e.h)
           \/ e.op = "push_front" /\ PushFront(e.h, e.x)
           \/ e.op = "push_back" /\ PushBack(e.h, e.x)

TraceNext == /\ l <= Len(tr)
             /\ Step(tr[l])
             /\ last'.res = tr[l].res
             /\ AgreesNext(tr[l])
             /\ l' = l + 1
             /\ UNCHANGED tr

TraceSpec == TraceInit /\ [][TraceNext]_tvars

TraceAccepted ==
    LET n == Len(ndJsonDeserialize(IOEnv.TRACE))
        d == TLCGet("stats").diameter - 1
    IN IF d = n THEN TRUE
       ELSE /\ PrintT(<<"REJECTED", ToJson([matched |-> d, total |-> n])>>)
            /\ FALSE
=============================================================================
