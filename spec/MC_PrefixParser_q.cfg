CONSTANTS Alphabets = {"short", "long", "binary"}
          Depth = 4
          EmitDepth = 0
          PrefixTable <- ReducedPrefixes
SPECIFICATION Spec
INVARIANTS EmitMeta PTypeOK Unique AcceptedDenotes ResolveOK OthersAreNotUnits ShowReadsBack EmitCase
PROPERTY ReadingsStable
CHECK_DEADLOCK FALSE
