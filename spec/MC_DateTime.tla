---------------------------- MODULE MC_DateTime ----------------------------
(***************************************************************************)
(* C19: model checking of DateTime.tla over a grid, and case generation.   *)
(*                                                                         *)
(* Grid: instants {range ends, +-1 ns / +-1 day from them, epoch, leap day,*)
(* the instants around the 2024 DST gaps / overlaps of Europe/Berlin and   *)
(* America/New_York, years 1, 0, -1, 9999, -9999, a few ordinary ones}     *)
(* x durations {+-} {1, 0.5, 0.25, 1.5, 2.75, 1000.75, 86399.5} x every    *)
(* time unit {ns us ms s min h day week month year}, about 1000 years and  *)
(* about 19999 / 19999.01 / 20000 years expressed in every unit (just      *)
(* inside the range / longer than the range / longer than a Span), sums    *)
(* such as 1 day + 1 ns} x zones.                                          *)
(*                                                                         *)
(* MC (invariants, in limb arithmetic):                                    *)
(*   Law1  (t + d) - t = RoundDur(d)            Law2  (t + d) - d = t      *)
(*   Law3  time-zone conversion keeps the instant                          *)
(*   Law4  format o parse is the identity on the instant                   *)
(*   VMAgrees  the VM's split (whole seconds + rounded fraction, possibly  *)
(*             10^9 ns) applies exactly RoundDur(d)                        *)
(*   RangeExact  OutOfRange is reported exactly beyond the range ends      *)
(* G: one CASE line per case with the predicted outcome.                   *)
(***************************************************************************)
EXTENDS DateTime, TLC, Json

CONSTANTS ZoneMode,   \* "all": every zone for every (instant, duration); "hash": one zone per pair
          Emit        \* TRUE: print CASE lines

VARIABLES stage, ti, cs, db
vars == <<stage, ti, cs, db>>

---------------------------------------------------------------------------
(* the tables *)

At(y, mo, d, h, mi, s, n) == <<DaysFromCivil(y, mo, d), h * 3600 + mi * 60 + s, n>>
T(l, t) == [l |-> l, t |-> t]

InstantTable == <<
   T("min", MinInstant),
   T("min+1ns", I3(MAdd(I4(MinInstant), OneNs))),
   T("min+1day", <<MinInstant[1] + 1, MinInstant[2], 0>>),
   T("max", MaxInstant),
   T("max-1ns", I3(MSub(I4(MaxInstant), OneNs))),
   T("max-1day", <<MaxInstant[1] - 1, MaxInstant[2], NS - 1>>),
   T("max-1day.0", <<MaxInstant[1] - 1, MaxInstant[2], 0>>),
   T("epoch", <<0, 0, 0>>),
   T("epoch-1ns", <<-1, SPD - 1, NS - 1>>),
   T("leapday noon", At(2024, 2, 29, 12, 0, 0, 0)),
   T("leapday last ns", At(2024, 2, 29, 23, 59, 59, 999999999)),
   T("berlin gap-1ns", At(2024, 3, 31, 0, 59, 59, 999999999)),
   T("berlin gap", At(2024, 3, 31, 1, 0, 0, 0)),
   T("berlin gap-30min", At(2024, 3, 31, 0, 30, 0, 500000000)),
   T("berlin overlap first 02:30", At(2024, 10, 27, 0, 30, 0, 1)),
   T("berlin overlap second 02:30", At(2024, 10, 27, 1, 30, 0, 1)),
   T("berlin overlap-1ns", At(2024, 10, 27, 0, 59, 59, 999999999)),
   T("newyork gap-1ns", At(2024, 3, 10, 6, 59, 59, 999999999)),
   T("newyork gap", At(2024, 3, 10, 7, 0, 0, 0)),
   T("newyork overlap first 01:30", At(2024, 11, 3, 5, 30, 0, 0)),
   T("newyork overlap second 01:30", At(2024, 11, 3, 6, 30, 0, 0)),
   T("year 1", At(1, 1, 1, 0, 0, 0, 0)),
   T("year 1 summer", At(1, 7, 4, 12, 34, 56, 789000000)),
   T("year 0 leap day", At(0, 2, 29, 6, 0, 0, 250000000)),
   T("year -1 last ns", At(-1, 12, 31, 23, 59, 59, 999999999)),
   T("year 9999", At(9999, 6, 15, 12, 0, 0, 0)),
   T("year 9999 dec 30", At(9999, 12, 30, 21, 59, 59, 0)),
   T("year -9999", At(-9999, 6, 15, 12, 0, 0, 125000000)),
   T("julian day 0", At(-4713, 11, 24, 12, 0, 0, 0)),
   T("1582-10-10", At(1582, 10, 10, 0, 0, 0, 0)),
   T("1900-02-28 (no leap)", At(1900, 2, 28, 23, 59, 59, 500000000)),
   T("moon landing", At(1969, 7, 20, 20, 17, 40, 0)),
   T("y2k", At(2000, 1, 1, 0, 0, 0, 0)),
   T("2^31 s", At(2038, 1, 19, 3, 14, 7, 0)),
   T("2100-03-01", At(2100, 3, 1, 0, 0, 0, 0)),
   T("ordinary", At(2022, 7, 20, 21, 52, 13, 123456789)) >>

\* time units of the prelude (units::si, units::time) in exact limbs, from their definitions:
\*   minute = 60 s, hour = 60 min, day = 24 h, week = 7 days, year = 365.2421881 days (tropical), month = year / 12
\* cls "exact": a dyadic multiple is an exact f64 number of seconds, the prediction must be met to the nanosecond;
\* cls "approx": the f64 seconds differ from the exact value by rounding (1e-9 is not a binary fraction, the year has
\* ten decimals): the comparator applies 1 ns + 1e-15 relative, the exact judgement is made by Trace_DateTime on the
\* seconds the implementation really used.
U(n, m, c) == [n |-> n, m |-> m, cls |-> c]
UnitTable == <<
   U("ns", <<0, 0, 1, 0>>, "approx"), U("us", <<0, 0, 1000, 0>>, "approx"), U("ms", <<0, 0, 1000000, 0>>, "approx"),
   U("s", <<0, 1, 0, 0>>, "exact"), U("min", <<0, 60, 0, 0>>, "exact"), U("h", <<0, 3600, 0, 0>>, "exact"),
   U("day", <<1, 0, 0, 0>>, "exact"), U("week", <<7, 0, 0, 0>>, "exact"),
   U("month", <<30, 37743, 754320000, 0>>, "approx"), U("year", <<365, 20925, 51840000, 0>>, "approx") >>
UIdx(n) == CHOOSE i \in 1..Len(UnitTable) : UnitTable[i].n = n
UM(n) == UnitTable[UIdx(n)].m

ASSUME /\ MTimes(UM("s"), 60) = UM("min") /\ MTimes(UM("min"), 60) = UM("h") /\ MTimes(UM("h"), 24) = UM("day")
       /\ MTimes(UM("day"), 7) = UM("week")
       /\ MTimes(UM("month"), 12) = UM("year")
       /\ MTimes(UM("year"), 1000000) = <<365242188, 8640, 0, 0>>      \* 365.2421881 days
       /\ MTimes(UM("ns"), 1000) = UM("us") /\ MTimes(UM("us"), 1000) = UM("ms") /\ MTimes(UM("ms"), 1000) = UM("s")

\* small coefficients k / 2^h, as written in the program
C(t, k, h) == [t |-> t, k |-> k, h |-> h]
Coefs == << C("1", 1, 0), C("0.5", 1, 1), C("0.25", 1, 2), C("1.5", 3, 1), C("2.75", 11, 2), C("1000.75", 4003, 2),
            C("86399.5", 172799, 1) >>

RECURSIVE TimesSeq(_, _, _)
TimesSeq(x, fs, i) == IF i > Len(fs) THEN x ELSE The({ TimesSeq(y, fs, i + 1) : y \in {MTimes(x, fs[i])} })
RECURSIVE ProdText(_, _)
ProdText(fs, i) == IF i = Len(fs) THEN ToString(fs[i]) ELSE ToString(fs[i]) \o " * " \o ProdText(fs, i + 1)
RECURSIVE Pow2(_)
Pow2(h) == IF h = 0 THEN 1 ELSE 2 * Pow2(h - 1)

D(text, m, cls) == [text |-> text, m |-> m, cls |-> cls]
NU == Len(UnitTable)
NC == Len(Coefs)
Small == [i \in 1..(NU * NC) |->
            LET u == ((i - 1) \div NC) + 1
                c == ((i - 1) % NC) + 1
            IN D(Coefs[c].t \o " " \o UnitTable[u].n, MHalves(MTimes(UnitTable[u].m, Coefs[c].k), Coefs[c].h), UnitTable[u].cls)]

\* D days written in the units that divide a day: (D * units per day) unit
PerDay == << <<"ns", <<86400, 1000000000>> >>, <<"us", <<86400, 1000000>> >>, <<"ms", <<86400, 1000>> >>, <<"s", <<86400>> >>,
             <<"min", <<1440>> >>, <<"h", <<24>> >>, <<"day", << >> >> >>
BigDays == <<365242, 7304478, 7304483, 7304485>>     \* ~1000 years; < range; > range, < Span; > Span
Big == [i \in 1..(Len(PerDay) * Len(BigDays)) |->
          LET p  == ((i - 1) \div Len(BigDays)) + 1
              fs == <<BigDays[((i - 1) % Len(BigDays)) + 1]>> \o PerDay[p][2]
          IN D("(" \o ProdText(fs, 1) \o ") " \o PerDay[p][1], TimesSeq(UM(PerDay[p][1]), fs, 1), UnitTable[UIdx(PerDay[p][1])].cls)]
\* the same ladder in weeks, months and years: (k / 2^h) unit
Frac(un, k, h) == D("(" \o ToString(k) \o " / " \o ToString(Pow2(h)) \o ") " \o un, MHalves(MTimes(UM(un), k), h), UnitTable[UIdx(un)].cls)
BigFrac == << Frac("week", 208709, 2),        \* 52177.25 weeks ~ 1000 years
              Frac("week", 4173987, 2),       \* 1043496.75 weeks = 7304477.25 days
              Frac("week", 2086995, 1),       \* 1043497.5 weeks  = 7304482.5 days
              Frac("week", 1043498, 0),       \* 7304486 days
              Frac("month", 12000, 0), Frac("month", 239988, 0), Frac("month", 1919905, 3), Frac("month", 240000, 0),
              Frac("year", 1000, 0), Frac("year", 19999, 0), Frac("year", 5119747, 8), Frac("year", 20000, 0) >>
\* sums and differences of two units
Mixed == << D("(1 day + 1 ns)", MAdd(UM("day"), UM("ns")), "approx"),
            D("(1 day - 1 ns)", MSub(UM("day"), UM("ns")), "approx"),
            D("(1 s - 1 ns)", MSub(UM("s"), UM("ns")), "approx"),
            D("(1 h + 0.5 s)", MAdd(UM("h"), MHalf(UM("s"))), "exact"),
            D("(1 week + 1 us)", MAdd(UM("week"), UM("us")), "approx"),
            D("(1 s - 1 s)", ZeroM, "exact"),
            D("0 s", ZeroM, "exact") >>

\* every magnitude with both signs
Signed(mags) == [i \in 1..(2 * Len(mags)) |->
                   LET e == mags[(i + 1) \div 2] IN
                   IF i % 2 = 1 THEN [text |-> e.text, d |-> Dur(1, e.m), cls |-> e.cls]
                   ELSE [text |-> "-" \o e.text, d |-> Dur(-1, e.m), cls |-> e.cls]]
DurTable == Signed(Small \o Big \o BigFrac \o Mixed)

ASSUME \A c \in 1..Len(Coefs), u \in 1..Len(UnitTable) : MHalvesExact(MTimes(UnitTable[u].m, Coefs[c].k), Coefs[c].h)
ASSUME /\ MHalvesExact(MTimes(UM("month"), 1919905), 3) /\ MHalvesExact(MTimes(UM("year"), 5119747), 8)
       /\ MHalvesExact(MTimes(UM("week"), 4173987), 2)

Zones == <<"UTC", "Europe/Berlin", "America/New_York", "Asia/Kathmandu", "Australia/Lord_Howe">>
\* conversion targets: tz("<zone>"), and the two predefined conversion functions
Targets == [i \in 1..Len(Zones) |-> [how |-> "tz", zone |-> Zones[i]]] \o << [how |-> "UTC", zone |-> "UTC"], [how |-> "local", zone |-> "local"] >>
\* UTC offsets (seconds) for the format/parse law: none, whole hours, 5:45, local mean times with seconds, the extremes
Offsets == {0, 3600, 7200, -18000, -14400, 20700, 3208, -17762, 38180, OFFMAX, -OFFMAX}

---------------------------------------------------------------------------
(* facts about the range and the calendar (checked once) *)

ASSUME /\ (-7) \div 2 = -4 /\ (-7) % 2 = 1
       /\ DaysFromCivil(1970, 1, 1) = 0 /\ DaysFromCivil(2024, 2, 29) = 19782 /\ DaysFromCivil(2000, 3, 1) = 11017
       /\ DaysFromCivil(1, 1, 1) = -719162 /\ DaysFromCivil(-9999, 1, 1) = -4371587 /\ DaysFromCivil(9999, 12, 31) = 2932896
       \* the range is the civil range shrunk by the largest offset
       /\ MinInstant = IShift(<<DaysFromCivil(-9999, 1, 1), 0, 0>>, OFFMAX)
       /\ MaxInstant = IShift(<<DaysFromCivil(9999, 12, 31), SPD - 1, NS - 1>>, -OFFMAX)
       \* out of range exactly one nanosecond beyond the ends
       /\ AddDur(MaxInstant, Dur(1, OneNs)) = DtErr
       /\ SubDur(MinInstant, Dur(1, OneNs)) = DtErr
       /\ AddDur(I3(MSub(I4(MaxInstant), OneNs)), Dur(1, OneNs)) = Ok(MaxInstant)
       /\ SubDur(I3(MAdd(I4(MinInstant), OneNs)), Dur(1, OneNs)) = Ok(MinInstant)
       /\ AddDur(MinInstant, Diff(MaxInstant, MinInstant)) = Ok(MaxInstant)
       /\ Diff(MaxInstant, MinInstant) = Dur(1, <<7304481, 72001, 999999999, 0>>)
       /\ InSpan(Diff(MaxInstant, MinInstant).m)                         \* a difference is never out of range
       /\ AddDur(<<0, 0, 0>>, Dur(1, <<SpanMaxDays, 1, 0, 0>>)) = DurErr
       /\ AddDur(<<0, 0, 0>>, Dur(1, <<SpanMaxDays, 0, 0, 0>>)) = DtErr
       \* rounding: half away from zero, sign-magnitude; the un-normalised 10^9 ns carries
       /\ RoundDur(Dur(-1, <<0, 0, 0, HALF>>)) = Dur(-1, OneNs) /\ RoundDur(Dur(1, <<0, 0, 0, HALF - 1>>)) = Dur(1, ZeroM)
       /\ VMSplit(Dur(1, <<0, 5, NS - 1, HALF>>)).ns = NS
       /\ VMApply(<<0, 0, 0>>, Dur(1, <<0, 5, NS - 1, HALF>>), "add") = Ok(<<0, 6, 0>>)
       /\ VMApply(<<0, 0, 0>>, Dur(-1, <<0, 5, NS - 1, HALF>>), "add") = Ok(<<-1, SPD - 6, 0>>)
       \* calendar inverse over two 400-year cycles sampled every 97 days, and around the ends
       /\ \A k \in 0..3100 : LET z == -150000 + 97 * k  c == CivilFromDays(z) IN DaysFromCivil(c[1], c[2], c[3]) = z
       /\ CivilFromDays(MinInstant[1]) = <<-9999, 1, 2>> /\ CivilFromDays(MaxInstant[1]) = <<9999, 12, 30>>
       /\ CivilFromDays(19782) = <<2024, 2, 29>> /\ CivilFromDays(-1) = <<1969, 12, 31>>

---------------------------------------------------------------------------
(* case generation *)

NoCase == [kind |-> "none"]
Inst(i) == db.inst[i].t
NZ == Len(Zones)
ZoneSet(i, j) == IF ZoneMode = "all" THEN 1..NZ ELSE {((i * 7 + j) % NZ) + 1}

OutJ(o) == [k |-> o.k, t |-> o.t]
ArithCase(i, j, z) ==
    LET t == Inst(i)
        e == db.dur[j]
        r == RoundDur(e.d)
        a == Apply(t, r, "add")
        s == Apply(t, r, "sub")
    IN [kind |-> "arith", i |-> i, j |-> j, tl |-> db.inst[i].l, t |-> t, z |-> Zones[z], dtext |-> e.text, d |-> e.d,
        cls |-> e.cls, r |-> r, add |-> OutJ(a), sub |-> OutJ(s),
        \* (t + d) - t, (t + d) - d, (t - d) + d
        adddiff |-> [k |-> a.k, x |-> r], addsub |-> [k |-> a.k, t |-> IF a.k = "ok" THEN t ELSE a.t],
        subadd |-> [k |-> s.k, t |-> IF s.k = "ok" THEN t ELSE s.t]]
DiffCase(i, j) ==
    [kind |-> "diff", i |-> i, j |-> j, t |-> Inst(i), u |-> Inst(j), z |-> Zones[(i % NZ) + 1], zu |-> Zones[(j % NZ) + 1],
     x |-> Diff(Inst(i), Inst(j))]
TzCase(i, z, g) ==
    LET v == TzConvert(Zoned(Inst(i), Zones[z]), Targets[g].zone)
    IN [kind |-> "tz", i |-> i, t |-> Inst(i), z |-> Zones[z], how |-> Targets[g].how, to |-> v.zone, out |-> v.inst]
FmtCase(i, z, f) ==
    [kind |-> "fmt", i |-> i, t |-> Inst(i), z |-> Zones[z], f |-> Formats[f], out |-> Inst(i)]

Init == /\ stage = 0 /\ ti = 0 /\ cs = NoCase
        /\ db = [inst |-> InstantTable, dur |-> DurTable]
Next == \/ /\ stage = 0
           /\ \E i \in 1..Len(db.inst) : ti' = i
           /\ stage' = 1 /\ UNCHANGED <<cs, db>>
        \/ /\ stage = 1 /\ stage' = 2 /\ UNCHANGED <<ti, db>>
           /\ \/ \E j \in 1..Len(db.dur) : \E z \in ZoneSet(ti, j) : cs' = ArithCase(ti, j, z)
              \/ \E j \in 1..Len(db.inst) : cs' = DiffCase(ti, j)
              \/ \E z \in 1..NZ, g \in 1..Len(Targets) : cs' = TzCase(ti, z, g)
              \/ \E z \in 1..NZ, f \in 1..Len(Formats) : FmtApplicable(Formats[f], Inst(ti)) /\ cs' = FmtCase(ti, z, f)
Spec == Init /\ [][Next]_vars

---------------------------------------------------------------------------
(* MC: the laws, in limb arithmetic *)

TablesOk == stage = 0 =>
    /\ \A i \in 1..Len(db.inst) : IsInstant(db.inst[i].t) /\ InRange(db.inst[i].t)
    /\ \A j \in 1..Len(db.dur) : IsDur(db.dur[j].d)

ArithLaws == cs.kind = "arith" =>
    LET t == cs.t
        d == cs.d
        r == RoundDur(d)
        a == AddDur(t, r)
        s == SubDur(t, r)
    IN /\ IsDur(r) /\ IsRounded(r)
       \* a rounding of d: within half a nanosecond
       /\ MCmp(DAbsDiff(r, d), <<0, 0, 0, HALF>>) <= 0
       /\ \A c \in RoundCands(d) : MCmp(DAbsDiff(c, d), <<0, 0, 0, HALF + TIESLACK>>) <= 0
       \* Law1 and Law2 (and their mirror images for subtraction)
       /\ a.k = "ok" => /\ IsInstant(a.t) /\ InRange(a.t)
                        /\ Diff(a.t, t) = r
                        /\ SubDur(a.t, r) = Ok(t)
       /\ s.k = "ok" => /\ IsInstant(s.t) /\ InRange(s.t)
                        /\ Diff(t, s.t) = r
                        /\ AddDur(s.t, r) = Ok(t)
       \* the VM's split applies exactly the rounded duration
       /\ VMApply(t, d, "add") = a /\ VMApply(t, d, "sub") = s
       \* out of range exactly beyond the ends: the distance to the end is shorter than the duration
       /\ InSpan(r.m) =>
            /\ (a.k = "DateTimeOutOfRange") = (IF r.sg = 1 THEN MCmp(r.m, Diff(MaxInstant, t).m) > 0
                                                ELSE MCmp(r.m, Diff(t, MinInstant).m) > 0)
            /\ (s.k = "DateTimeOutOfRange") = (IF r.sg = 1 THEN MCmp(r.m, Diff(t, MinInstant).m) > 0
                                                ELSE MCmp(r.m, Diff(MaxInstant, t).m) > 0)
            /\ a.k # "DurationOutOfRange" /\ s.k # "DurationOutOfRange"
       /\ ~InSpan(r.m) => a = DurErr /\ s = DurErr

DiffLaws == cs.kind = "diff" =>
    LET x == Diff(cs.t, cs.u) IN
    /\ IsDur(x) /\ IsRounded(x) /\ InSpan(x.m)
    /\ AddDur(cs.u, x) = Ok(cs.t)                 \* u + (t - u) = t
    /\ Diff(cs.u, cs.t) = Neg(x)                  \* anti-symmetric
    /\ DurClose(x, x)

TzLaw == cs.kind = "tz" => cs.out = cs.t /\ TzConvert(TzConvert(Zoned(cs.t, cs.z), cs.to), cs.z) = Zoned(cs.t, cs.z)

FmtLaw == cs.kind = "fmt" =>
    \A off \in Offsets : /\ FieldsOk(Fields(cs.t, off))
                         /\ FormatParse(cs.t, off) = cs.t
                         \* a text without the nanoseconds, or read at another offset, is another instant
                         /\ off # 0 => InstantOfFields([Fields(cs.t, off) EXCEPT ![8] = 0]) # cs.t

EmitCase == (Emit /\ stage = 2) => PrintT(<<"CASE", ToJson(cs)>>)
EmitMeta == (Emit /\ stage = 0) =>
    PrintT(<<"META", ToJson([min |-> MinInstant, max |-> MaxInstant, units |-> UnitTable, zones |-> Zones,
                             formats |-> Formats, ninst |-> Len(db.inst), ndur |-> Len(db.dur)])>>)
=============================================================================
