--------------------------- MODULE Trace_DateTime ---------------------------
(***************************************************************************)
(* C19, judging recorded operations with the operators of DateTime.tla.    *)
(* One ndjson event per operation executed on a real prelude-loaded        *)
(* numbat Context (file: environment variable TRACE).  Both directions use *)
(* it: G (the cases MC_DateTime enumerated, executed) and J (seeded random *)
(* instants, durations in every time unit, IANA zones).                    *)
(*                                                                         *)
(* The operations are independent of each other (a date-time value is      *)
(* immutable), so the trace state is just the position; an event the       *)
(* specification does not accept is reported (BAD line) and the judging    *)
(* goes on, so that one run lists every deviation.  Accepted iff every     *)
(* event was consumed and no BAD line was printed.                         *)
(*                                                                         *)
(* events (integers are limbs, see DateTime.tla):                          *)
(*   op add | sub | add_diff | sub_diff | add_sub | sub_add:               *)
(*        t, d = [sg, m], fin, cls, err, out (instant) / x (duration)      *)
(*   op diff:  t, u, cls, x            op tz:  t, z, to, cls, out, oz      *)
(*   op fmt:   t, fok, fields, cls, out        op make: t, z, cls, out, oz *)
(***************************************************************************)
EXTENDS DateTime, TLC, Json, IOUtils

CONSTANTS StrictKind,   \* TRUE: error kinds and zone names must be the predicted ones
          Ulps          \* 0: the duration applied must be a rounding of the observed f64 seconds; 2: +- 2 ulp

\* The recorded trace is a constant-level definition: TLC evaluates it once.  (Holding it in a state variable
\* makes every step linear in the trace length - each new state is normalised and fingerprinted as a whole.)
tr == ndJsonDeserialize(IOEnv.TRACE)

VARIABLES l       \* position of the next event to judge
tvars == <<l>>

Accept(e) ==
    CASE e.op \in {"add", "sub"} -> AcceptApply(e.t, e.d, e.fin, e.op, e.cls, e.err, e.out, StrictKind, Ulps)
      [] e.op = "add_diff" -> AcceptApplyDiff(e.t, e.d, e.fin, "add", e.cls, e.err, e.x, StrictKind, Ulps)
      [] e.op = "sub_diff" -> AcceptApplyDiff(e.t, e.d, e.fin, "sub", e.cls, e.err, e.x, StrictKind, Ulps)
      [] e.op = "add_sub" -> AcceptThereAndBack(e.t, e.d, e.fin, "add", e.cls, e.err, e.out, StrictKind, Ulps)
      [] e.op = "sub_add" -> AcceptThereAndBack(e.t, e.d, e.fin, "sub", e.cls, e.err, e.out, StrictKind, Ulps)
      [] e.op = "diff" -> AcceptDiff(e.t, e.u, e.cls, e.x)
      [] e.op = "tz" -> AcceptTz(e.t, e.z, e.to, e.cls, e.out, e.oz, StrictKind)
      [] e.op = "fmt" -> AcceptFmt(e.t, e.fok, e.fields, e.cls, e.out)
      [] e.op = "make" -> e.cls = "ok" /\ e.out = e.t /\ (StrictKind => e.oz = e.z)
      [] OTHER -> FALSE

WellFormed(e) == /\ IsInstant(e.t) /\ InRange(e.t)
                 /\ e.op \in {"add", "sub", "add_diff", "sub_diff", "add_sub", "sub_add"} => (IsDur(e.d) \/ ~e.fin)

TraceInit == l = 1

TraceNext == /\ l <= Len(tr)
             /\ IF WellFormed(tr[l]) /\ Accept(tr[l]) THEN TRUE
                ELSE PrintT(<<"BAD", ToJson([line |-> l])>>)
             /\ l' = l + 1

TraceSpec == TraceInit /\ [][TraceNext]_tvars

TraceAccepted ==
    LET n == Len(tr)
        d == TLCGet("stats").diameter - 1
    IN IF d = n THEN TRUE
       ELSE /\ PrintT(<<"REJECTED", ToJson([matched |-> d, total |-> n])>>)
            /\ FALSE
=============================================================================
