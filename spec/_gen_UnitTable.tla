---- MODULE _gen_UnitTable ----
\* generated from the unit table of the current tree; do not edit
EXTENDS Integers, TLC

UnitDef == "metre" :> [base |-> TRUE, def |-> <<  >>]
  @@ "second" :> [base |-> TRUE, def |-> <<  >>]
  @@ "gram" :> [base |-> TRUE, def |-> <<  >>]
  @@ "ampere" :> [base |-> TRUE, def |-> <<  >>]
  @@ "kelvin" :> [base |-> TRUE, def |-> <<  >>]
  @@ "mole" :> [base |-> TRUE, def |-> <<  >>]
  @@ "candela" :> [base |-> TRUE, def |-> <<  >>]
  @@ "euro" :> [base |-> TRUE, def |-> <<  >>]
  @@ "bit" :> [base |-> TRUE, def |-> <<  >>]
  @@ "pixel" :> [base |-> TRUE, def |-> <<  >>]
  @@ "dot" :> [base |-> TRUE, def |-> <<  >>]
  @@ "frame" :> [base |-> TRUE, def |-> <<  >>]
  @@ "beat" :> [base |-> TRUE, def |-> <<  >>]
  @@ "piece" :> [base |-> TRUE, def |-> <<  >>]
  @@ "person" :> [base |-> TRUE, def |-> <<  >>]
  @@ "LOC" :> [base |-> TRUE, def |-> <<  >>]
  @@ "unix_s" :> [base |-> TRUE, def |-> <<  >>]
  @@ "decade" :> [base |-> FALSE, def |-> << [u |-> "year", pk |-> "metric", pe |-> 0, n |-> 1, d |-> 1] >>]
  @@ "hertz" :> [base |-> FALSE, def |-> << [u |-> "second", pk |-> "metric", pe |-> 0, n |-> -1, d |-> 1] >>]
  @@ "maxwell" :> [base |-> FALSE, def |-> << [u |-> "gauss", pk |-> "metric", pe |-> 0, n |-> 1, d |-> 1], [u |-> "metre", pk |-> "metric", pe |-> -2, n |-> 2, d |-> 1] >>]
  @@ "planck_temperature" :> [base |-> FALSE, def |-> << [u |-> "joule", pk |-> "metric", pe |-> 0, n |-> 1, d |-> 2], [u |-> "hertz", pk |-> "metric", pe |-> 0, n |-> -1, d |-> 2], [u |-> "metre", pk |-> "metric", pe |-> 0, n |-> 5, d |-> 2], [u |-> "second", pk |-> "metric", pe |-> 0, n |-> -5, d |-> 2], [u |-> "metre", pk |-> "metric", pe |-> 0, n |-> -3, d |-> 2], [u |-> "gram", pk |-> "metric", pe |-> 3, n |-> 1, d |-> 2], [u |-> "second", pk |-> "metric", pe |-> 0, n |-> 1, d |-> 1], [u |-> "joule", pk |-> "metric", pe |-> 0, n |-> -1, d |-> 1], [u |-> "kelvin", pk |-> "metric", pe |-> 0, n |-> 1, d |-> 1] >>]
  @@ "siemens" :> [base |-> FALSE, def |-> << [u |-> "ohm", pk |-> "metric", pe |-> 0, n |-> -1, d |-> 1] >>]
  @@ "fermi" :> [base |-> FALSE, def |-> << [u |-> "metre", pk |-> "metric", pe |-> -15, n |-> 1, d |-> 1] >>]
  @@ "byte" :> [base |-> FALSE, def |-> << [u |-> "bit", pk |-> "metric", pe |-> 0, n |-> 1, d |-> 1] >>]
  @@ "becquerel" :> [base |-> FALSE, def |-> << [u |-> "second", pk |-> "metric", pe |-> 0, n |-> -1, d |-> 1] >>]
  @@ "kph" :> [base |-> FALSE, def |-> << [u |-> "metre", pk |-> "metric", pe |-> 3, n |-> 1, d |-> 1], [u |-> "hour", pk |-> "metric", pe |-> 0, n |-> -1, d |-> 1] >>]
  @@ "ppi" :> [base |-> FALSE, def |-> << [u |-> "pixel", pk |-> "metric", pe |-> 0, n |-> 1, d |-> 1], [u |-> "inch", pk |-> "metric", pe |-> 0, n |-> -1, d |-> 1] >>]
  @@ "pound_force" :> [base |-> FALSE, def |-> << [u |-> "newton", pk |-> "metric", pe |-> 0, n |-> 1, d |-> 1] >>]
  @@ "Ry" :> [base |-> FALSE, def |-> << [u |-> "joule", pk |-> "metric", pe |-> 0, n |-> 1, d |-> 1], [u |-> "hertz", pk |-> "metric", pe |-> 0, n |-> -1, d |-> 1], [u |-> "metre", pk |-> "metric", pe |-> 0, n |-> 1, d |-> 1], [u |-> "second", pk |-> "metric", pe |-> 0, n |-> -1, d |-> 1], [u |-> "gram", pk |-> "metric", pe |-> 3, n |-> 1, d |-> 1], [u |-> "coulomb", pk |-> "metric", pe |-> 0, n |-> 4, d |-> 1], [u |-> "farad", pk |-> "metric", pe |-> 0, n |-> -2, d |-> 1], [u |-> "metre", pk |-> "metric", pe |-> 0, n |-> 2, d |-> 1], [u |-> "joule", pk |-> "metric", pe |-> 0, n |-> -3, d |-> 1], [u |-> "hertz", pk |-> "metric", pe |-> 0, n |-> 3, d |-> 1], [u |-> "metre", pk |-> "metric", pe |-> 0, n |-> -1, d |-> 1], [u |-> "second", pk |-> "metric", pe |-> 0, n |-> 1, d |-> 1] >>]
  @@ "molal" :> [base |-> FALSE, def |-> << [u |-> "mole", pk |-> "metric", pe |-> 0, n |-> 1, d |-> 1], [u |-> "gram", pk |-> "metric", pe |-> 3, n |-> -1, d |-> 1] >>]
  @@ "kilogram_force" :> [base |-> FALSE, def |-> << [u |-> "newton", pk |-> "metric", pe |-> 0, n |-> 1, d |-> 1] >>]
  @@ "lux" :> [base |-> FALSE, def |-> << [u |-> "lumen", pk |-> "metric", pe |-> 0, n |-> 1, d |-> 1], [u |-> "metre", pk |-> "metric", pe |-> 0, n |-> -2, d |-> 1] >>]
  @@ "therm" :> [base |-> FALSE, def |-> << [u |-> "BTU", pk |-> "metric", pe |-> 0, n |-> 1, d |-> 1] >>]
  @@ "firkin" :> [base |-> FALSE, def |-> << [u |-> "pound", pk |-> "metric", pe |-> 0, n |-> 1, d |-> 1] >>]
  @@ "astronomicalunit" :> [base |-> FALSE, def |-> << [u |-> "metre", pk |-> "metric", pe |-> 0, n |-> 1, d |-> 1] >>]
  @@ "trillion" :> [base |-> FALSE, def |-> <<  >>]
  @@ "footballfield" :> [base |-> FALSE, def |-> << [u |-> "metre", pk |-> "metric", pe |-> 0, n |-> 1, d |-> 1], [u |-> "metre", pk |-> "metric", pe |-> 0, n |-> 1, d |-> 1] >>]
  @@ "year" :> [base |-> FALSE, def |-> << [u |-> "day", pk |-> "metric", pe |-> 0, n |-> 1, d |-> 1] >>]
  @@ "Hg" :> [base |-> FALSE, def |-> << [u |-> "mmHg", pk |-> "metric", pe |-> 0, n |-> 1, d |-> 1], [u |-> "metre", pk |-> "metric", pe |-> -3, n |-> -1, d |-> 1] >>]
  @@ "tablespoon" :> [base |-> FALSE, def |-> << [u |-> "cup", pk |-> "metric", pe |-> 0, n |-> 1, d |-> 1] >>]
  @@ "gregorian_year" :> [base |-> FALSE, def |-> << [u |-> "day", pk |-> "metric", pe |-> 0, n |-> 1, d |-> 1] >>]
  @@ "litre" :> [base |-> FALSE, def |-> << [u |-> "metre", pk |-> "metric", pe |-> -1, n |-> 3, d |-> 1] >>]
  @@ "rod" :> [base |-> FALSE, def |-> << [u |-> "foot", pk |-> "metric", pe |-> 0, n |-> 1, d |-> 1] >>]
  @@ "imperial_fluid_drachm" :> [base |-> FALSE, def |-> << [u |-> "imperial_fluidounce", pk |-> "metric", pe |-> 0, n |-> 1, d |-> 1] >>]
  @@ "unix_µs" :> [base |-> FALSE, def |-> << [u |-> "unix_s", pk |-> "metric", pe |-> 0, n |-> 1, d |-> 1] >>]
  @@ "fortnight" :> [base |-> FALSE, def |-> << [u |-> "day", pk |-> "metric", pe |-> 0, n |-> 1, d |-> 1] >>]
  @@ "watthour" :> [base |-> FALSE, def |-> << [u |-> "watt", pk |-> "metric", pe |-> 0, n |-> 1, d |-> 1], [u |-> "hour", pk |-> "metric", pe |-> 0, n |-> 1, d |-> 1] >>]
  @@ "foot" :> [base |-> FALSE, def |-> << [u |-> "inch", pk |-> "metric", pe |-> 0, n |-> 1, d |-> 1] >>]
  @@ "revolution" :> [base |-> FALSE, def |-> << [u |-> "degree", pk |-> "metric", pe |-> 0, n |-> 1, d |-> 1] >>]
  @@ "bar" :> [base |-> FALSE, def |-> << [u |-> "pascal", pk |-> "metric", pe |-> 3, n |-> 1, d |-> 1] >>]
  @@ "lumen" :> [base |-> FALSE, def |-> << [u |-> "candela", pk |-> "metric", pe |-> 0, n |-> 1, d |-> 1], [u |-> "steradian", pk |-> "metric", pe |-> 0, n |-> 1, d |-> 1] >>]
  @@ "nit" :> [base |-> FALSE, def |-> << [u |-> "candela", pk |-> "metric", pe |-> 0, n |-> 1, d |-> 1], [u |-> "metre", pk |-> "metric", pe |-> 0, n |-> -2, d |-> 1] >>]
  @@ "long_hundredweight" :> [base |-> FALSE, def |-> << [u |-> "stone", pk |-> "metric", pe |-> 0, n |-> 1, d |-> 1] >>]
  @@ "thousand" :> [base |-> FALSE, def |-> <<  >>]
  @@ "partspermillion" :> [base |-> FALSE, def |-> <<  >>]
  @@ "tesla" :> [base |-> FALSE, def |-> << [u |-> "weber", pk |-> "metric", pe |-> 0, n |-> 1, d |-> 1], [u |-> "metre", pk |-> "metric", pe |-> 0, n |-> -2, d |-> 1] >>]
  @@ "imperial_bushel" :> [base |-> FALSE, def |-> << [u |-> "imperial_gallon", pk |-> "metric", pe |-> 0, n |-> 1, d |-> 1] >>]
  @@ "imperial_tablespoon" :> [base |-> FALSE, def |-> << [u |-> "imperial_fluidounce", pk |-> "metric", pe |-> 0, n |-> 1, d |-> 1] >>]
  @@ "fluidounce" :> [base |-> FALSE, def |-> << [u |-> "tablespoon", pk |-> "metric", pe |-> 0, n |-> 1, d |-> 1] >>]
  @@ "planck_length" :> [base |-> FALSE, def |-> << [u |-> "joule", pk |-> "metric", pe |-> 0, n |-> 1, d |-> 2], [u |-> "hertz", pk |-> "metric", pe |-> 0, n |-> -1, d |-> 2], [u |-> "metre", pk |-> "metric", pe |-> 0, n |-> 3, d |-> 2], [u |-> "gram", pk |-> "metric", pe |-> 3, n |-> -1, d |-> 2], [u |-> "second", pk |-> "metric", pe |-> 0, n |-> -1, d |-> 1], [u |-> "metre", pk |-> "metric", pe |-> 0, n |-> -3, d |-> 2], [u |-> "second", pk |-> "metric", pe |-> 0, n |-> 3, d |-> 2] >>]
  @@ "thou" :> [base |-> FALSE, def |-> << [u |-> "inch", pk |-> "metric", pe |-> 0, n |-> 1, d |-> 1] >>]
  @@ "partspertrillion" :> [base |-> FALSE, def |-> <<  >>]
  @@ "month" :> [base |-> FALSE, def |-> << [u |-> "year", pk |-> "metric", pe |-> 0, n |-> 1, d |-> 1] >>]
  @@ "imperial_gallon" :> [base |-> FALSE, def |-> << [u |-> "imperial_quart", pk |-> "metric", pe |-> 0, n |-> 1, d |-> 1] >>]
  @@ "farad" :> [base |-> FALSE, def |-> << [u |-> "coulomb", pk |-> "metric", pe |-> 0, n |-> 1, d |-> 1], [u |-> "volt", pk |-> "metric", pe |-> 0, n |-> -1, d |-> 1] >>]
  @@ "horsepower" :> [base |-> FALSE, def |-> << [u |-> "watt", pk |-> "metric", pe |-> 0, n |-> 1, d |-> 1] >>]
  @@ "angstrom" :> [base |-> FALSE, def |-> << [u |-> "metre", pk |-> "metric", pe |-> 0, n |-> 1, d |-> 1] >>]
  @@ "KB" :> [base |-> FALSE, def |-> << [u |-> "byte", pk |-> "metric", pe |-> 3, n |-> 1, d |-> 1] >>]
  @@ "hundred" :> [base |-> FALSE, def |-> <<  >>]
  @@ "partsperquadrillion" :> [base |-> FALSE, def |-> <<  >>]
  @@ "arcminute" :> [base |-> FALSE, def |-> << [u |-> "degree", pk |-> "metric", pe |-> 0, n |-> 1, d |-> 1] >>]
  @@ "turn" :> [base |-> FALSE, def |-> << [u |-> "radian", pk |-> "metric", pe |-> 0, n |-> 1, d |-> 1] >>]
  @@ "mile" :> [base |-> FALSE, def |-> << [u |-> "yard", pk |-> "metric", pe |-> 0, n |-> 1, d |-> 1] >>]
  @@ "fathom" :> [base |-> FALSE, def |-> << [u |-> "yard", pk |-> "metric", pe |-> 0, n |-> 1, d |-> 1] >>]
  @@ "erg" :> [base |-> FALSE, def |-> << [u |-> "dyne", pk |-> "metric", pe |-> 0, n |-> 1, d |-> 1], [u |-> "metre", pk |-> "metric", pe |-> -2, n |-> 1, d |-> 1] >>]
  @@ "imperial_teaspoon" :> [base |-> FALSE, def |-> << [u |-> "imperial_tablespoon", pk |-> "metric", pe |-> 0, n |-> 1, d |-> 1] >>]
  @@ "coulomb" :> [base |-> FALSE, def |-> << [u |-> "ampere", pk |-> "metric", pe |-> 0, n |-> 1, d |-> 1], [u |-> "second", pk |-> "metric", pe |-> 0, n |-> 1, d |-> 1] >>]
  @@ "micron" :> [base |-> FALSE, def |-> << [u |-> "metre", pk |-> "metric", pe |-> -6, n |-> 1, d |-> 1] >>]
  @@ "cup" :> [base |-> FALSE, def |-> << [u |-> "pint", pk |-> "metric", pe |-> 0, n |-> 1, d |-> 1] >>]
  @@ "week" :> [base |-> FALSE, def |-> << [u |-> "day", pk |-> "metric", pe |-> 0, n |-> 1, d |-> 1] >>]
  @@ "oersted" :> [base |-> FALSE, def |-> << [u |-> "dyne", pk |-> "metric", pe |-> 0, n |-> 1, d |-> 1], [u |-> "maxwell", pk |-> "metric", pe |-> 0, n |-> -1, d |-> 1] >>]
  @@ "dpi" :> [base |-> FALSE, def |-> << [u |-> "dot", pk |-> "metric", pe |-> 0, n |-> 1, d |-> 1], [u |-> "inch", pk |-> "metric", pe |-> 0, n |-> -1, d |-> 1] >>]
  @@ "knot" :> [base |-> FALSE, def |-> << [u |-> "metre", pk |-> "metric", pe |-> 0, n |-> 1, d |-> 1], [u |-> "second", pk |-> "metric", pe |-> 0, n |-> -1, d |-> 1] >>]
  @@ "thermie" :> [base |-> FALSE, def |-> << [u |-> "calorie", pk |-> "metric", pe |-> 3, n |-> 1, d |-> 1] >>]
  @@ "inHg" :> [base |-> FALSE, def |-> << [u |-> "inch", pk |-> "metric", pe |-> 0, n |-> 1, d |-> 1], [u |-> "Hg", pk |-> "metric", pe |-> 0, n |-> 1, d |-> 1] >>]
  @@ "fps" :> [base |-> FALSE, def |-> << [u |-> "frame", pk |-> "metric", pe |-> 0, n |-> 1, d |-> 1], [u |-> "second", pk |-> "metric", pe |-> 0, n |-> -1, d |-> 1] >>]
  @@ "tonne" :> [base |-> FALSE, def |-> << [u |-> "gram", pk |-> "metric", pe |-> 3, n |-> 1, d |-> 1] >>]
  @@ "minute" :> [base |-> FALSE, def |-> << [u |-> "second", pk |-> "metric", pe |-> 0, n |-> 1, d |-> 1] >>]
  @@ "yard" :> [base |-> FALSE, def |-> << [u |-> "foot", pk |-> "metric", pe |-> 0, n |-> 1, d |-> 1] >>]
  @@ "smoot" :> [base |-> FALSE, def |-> << [u |-> "inch", pk |-> "metric", pe |-> 0, n |-> 1, d |-> 1] >>]
  @@ "psi" :> [base |-> FALSE, def |-> << [u |-> "pascal", pk |-> "metric", pe |-> 3, n |-> 1, d |-> 1] >>]
  @@ "rpm" :> [base |-> FALSE, def |-> << [u |-> "minute", pk |-> "metric", pe |-> 0, n |-> -1, d |-> 1] >>]
  @@ "planck_time" :> [base |-> FALSE, def |-> << [u |-> "joule", pk |-> "metric", pe |-> 0, n |-> 1, d |-> 2], [u |-> "hertz", pk |-> "metric", pe |-> 0, n |-> -1, d |-> 2], [u |-> "metre", pk |-> "metric", pe |-> 0, n |-> 3, d |-> 2], [u |-> "gram", pk |-> "metric", pe |-> 3, n |-> -1, d |-> 2], [u |-> "second", pk |-> "metric", pe |-> 0, n |-> -1, d |-> 1], [u |-> "metre", pk |-> "metric", pe |-> 0, n |-> -5, d |-> 2], [u |-> "second", pk |-> "metric", pe |-> 0, n |-> 5, d |-> 2] >>]
  @@ "teaspoon" :> [base |-> FALSE, def |-> << [u |-> "tablespoon", pk |-> "metric", pe |-> 0, n |-> 1, d |-> 1] >>]
  @@ "century" :> [base |-> FALSE, def |-> << [u |-> "year", pk |-> "metric", pe |-> 0, n |-> 1, d |-> 1] >>]
  @@ "gradian" :> [base |-> FALSE, def |-> << [u |-> "degree", pk |-> "metric", pe |-> 0, n |-> 1, d |-> 1] >>]
  @@ "million" :> [base |-> FALSE, def |-> <<  >>]
  @@ "billion" :> [base |-> FALSE, def |-> <<  >>]
  @@ "joule" :> [base |-> FALSE, def |-> << [u |-> "newton", pk |-> "metric", pe |-> 0, n |-> 1, d |-> 1], [u |-> "metre", pk |-> "metric", pe |-> 0, n |-> 1, d |-> 1] >>]
  @@ "permille" :> [base |-> FALSE, def |-> <<  >>]
  @@ "day" :> [base |-> FALSE, def |-> << [u |-> "hour", pk |-> "metric", pe |-> 0, n |-> 1, d |-> 1] >>]
  @@ "ounce_force" :> [base |-> FALSE, def |-> << [u |-> "pound_force", pk |-> "metric", pe |-> 0, n |-> 1, d |-> 1] >>]
  @@ "nautical_mile" :> [base |-> FALSE, def |-> << [u |-> "metre", pk |-> "metric", pe |-> 0, n |-> 1, d |-> 1] >>]
  @@ "pennyweight" :> [base |-> FALSE, def |-> << [u |-> "grain", pk |-> "metric", pe |-> 0, n |-> 1, d |-> 1] >>]
  @@ "bps" :> [base |-> FALSE, def |-> << [u |-> "bit", pk |-> "metric", pe |-> 0, n |-> 1, d |-> 1], [u |-> "second", pk |-> "metric", pe |-> 0, n |-> -1, d |-> 1] >>]
  @@ "atmosphere" :> [base |-> FALSE, def |-> << [u |-> "pascal", pk |-> "metric", pe |-> 0, n |-> 1, d |-> 1] >>]
  @@ "planck_mass" :> [base |-> FALSE, def |-> << [u |-> "joule", pk |-> "metric", pe |-> 0, n |-> 1, d |-> 2], [u |-> "hertz", pk |-> "metric", pe |-> 0, n |-> -1, d |-> 2], [u |-> "metre", pk |-> "metric", pe |-> 0, n |-> 1, d |-> 2], [u |-> "second", pk |-> "metric", pe |-> 0, n |-> -1, d |-> 2], [u |-> "metre", pk |-> "metric", pe |-> 0, n |-> -3, d |-> 2], [u |-> "gram", pk |-> "metric", pe |-> 3, n |-> 1, d |-> 2], [u |-> "second", pk |-> "metric", pe |-> 0, n |-> 1, d |-> 1] >>]
  @@ "gray" :> [base |-> FALSE, def |-> << [u |-> "joule", pk |-> "metric", pe |-> 0, n |-> 1, d |-> 1], [u |-> "gram", pk |-> "metric", pe |-> 3, n |-> -1, d |-> 1] >>]
  @@ "ksi" :> [base |-> FALSE, def |-> << [u |-> "psi", pk |-> "metric", pe |-> 0, n |-> 1, d |-> 1] >>]
  @@ "dyne" :> [base |-> FALSE, def |-> << [u |-> "newton", pk |-> "metric", pe |-> 0, n |-> 1, d |-> 1] >>]
  @@ "hour" :> [base |-> FALSE, def |-> << [u |-> "minute", pk |-> "metric", pe |-> 0, n |-> 1, d |-> 1] >>]
  @@ "gauss" :> [base |-> FALSE, def |-> << [u |-> "tesla", pk |-> "metric", pe |-> -6, n |-> 1, d |-> 1] >>]
  @@ "degree" :> [base |-> FALSE, def |-> << [u |-> "radian", pk |-> "metric", pe |-> 0, n |-> 1, d |-> 1] >>]
  @@ "ohm" :> [base |-> FALSE, def |-> << [u |-> "volt", pk |-> "metric", pe |-> 0, n |-> 1, d |-> 1], [u |-> "ampere", pk |-> "metric", pe |-> 0, n |-> -1, d |-> 1] >>]
  @@ "lightyear" :> [base |-> FALSE, def |-> << [u |-> "metre", pk |-> "metric", pe |-> 0, n |-> 1, d |-> 1] >>]
  @@ "grain" :> [base |-> FALSE, def |-> << [u |-> "gram", pk |-> "metric", pe |-> -3, n |-> 1, d |-> 1] >>]
  @@ "ounce" :> [base |-> FALSE, def |-> << [u |-> "pound", pk |-> "metric", pe |-> 0, n |-> 1, d |-> 1] >>]
  @@ "amperehour" :> [base |-> FALSE, def |-> << [u |-> "ampere", pk |-> "metric", pe |-> 0, n |-> 1, d |-> 1], [u |-> "hour", pk |-> "metric", pe |-> 0, n |-> 1, d |-> 1] >>]
  @@ "steradian" :> [base |-> FALSE, def |-> << [u |-> "radian", pk |-> "metric", pe |-> 0, n |-> 2, d |-> 1] >>]
  @@ "quadrillion" :> [base |-> FALSE, def |-> <<  >>]
  @@ "henry" :> [base |-> FALSE, def |-> << [u |-> "weber", pk |-> "metric", pe |-> 0, n |-> 1, d |-> 1], [u |-> "ampere", pk |-> "metric", pe |-> 0, n |-> -1, d |-> 1] >>]
  @@ "league" :> [base |-> FALSE, def |-> << [u |-> "mile", pk |-> "metric", pe |-> 0, n |-> 1, d |-> 1] >>]
  @@ "inch" :> [base |-> FALSE, def |-> << [u |-> "metre", pk |-> "metric", pe |-> 0, n |-> 1, d |-> 1] >>]
  @@ "radian" :> [base |-> FALSE, def |-> << [u |-> "metre", pk |-> "metric", pe |-> 0, n |-> 1, d |-> 1], [u |-> "metre", pk |-> "metric", pe |-> 0, n |-> -1, d |-> 1] >>]
  @@ "partsperbillion" :> [base |-> FALSE, def |-> <<  >>]
  @@ "millennium" :> [base |-> FALSE, def |-> << [u |-> "year", pk |-> "metric", pe |-> 0, n |-> 1, d |-> 1] >>]
  @@ "electronvolt" :> [base |-> FALSE, def |-> << [u |-> "joule", pk |-> "metric", pe |-> 0, n |-> 1, d |-> 1] >>]
  @@ "mmHg" :> [base |-> FALSE, def |-> << [u |-> "pascal", pk |-> "metric", pe |-> 0, n |-> 1, d |-> 1] >>]
  @@ "metric_teaspoon" :> [base |-> FALSE, def |-> << [u |-> "metric_tablespoon", pk |-> "metric", pe |-> 0, n |-> 1, d |-> 1] >>]
  @@ "imperial_pint" :> [base |-> FALSE, def |-> << [u |-> "imperial_fluidounce", pk |-> "metric", pe |-> 0, n |-> 1, d |-> 1] >>]
  @@ "stokes" :> [base |-> FALSE, def |-> << [u |-> "metre", pk |-> "metric", pe |-> -2, n |-> 2, d |-> 1], [u |-> "second", pk |-> "metric", pe |-> 0, n |-> -1, d |-> 1] >>]
  @@ "bpm" :> [base |-> FALSE, def |-> << [u |-> "beat", pk |-> "metric", pe |-> 0, n |-> 1, d |-> 1], [u |-> "minute", pk |-> "metric", pe |-> 0, n |-> -1, d |-> 1] >>]
  @@ "mpg" :> [base |-> FALSE, def |-> << [u |-> "mile", pk |-> "metric", pe |-> 0, n |-> 1, d |-> 1], [u |-> "gallon", pk |-> "metric", pe |-> 0, n |-> -1, d |-> 1] >>]
  @@ "sidereal_day" :> [base |-> FALSE, def |-> << [u |-> "second", pk |-> "metric", pe |-> 0, n |-> 1, d |-> 1] >>]
  @@ "parsec" :> [base |-> FALSE, def |-> << [u |-> "astronomicalunit", pk |-> "metric", pe |-> 0, n |-> 1, d |-> 1] >>]
  @@ "quintillion" :> [base |-> FALSE, def |-> <<  >>]
  @@ "calorie" :> [base |-> FALSE, def |-> << [u |-> "joule", pk |-> "metric", pe |-> 0, n |-> 1, d |-> 1] >>]
  @@ "cc" :> [base |-> FALSE, def |-> << [u |-> "metre", pk |-> "metric", pe |-> -2, n |-> 3, d |-> 1] >>]
  @@ "poise" :> [base |-> FALSE, def |-> << [u |-> "dyne", pk |-> "metric", pe |-> 0, n |-> 1, d |-> 1], [u |-> "second", pk |-> "metric", pe |-> 0, n |-> 1, d |-> 1], [u |-> "metre", pk |-> "metric", pe |-> -2, n |-> -2, d |-> 1] >>]
  @@ "metric_tablespoon" :> [base |-> FALSE, def |-> << [u |-> "litre", pk |-> "metric", pe |-> -3, n |-> 1, d |-> 1] >>]
  @@ "pascal" :> [base |-> FALSE, def |-> << [u |-> "newton", pk |-> "metric", pe |-> 0, n |-> 1, d |-> 1], [u |-> "metre", pk |-> "metric", pe |-> 0, n |-> -2, d |-> 1] >>]
  @@ "imperial_quart" :> [base |-> FALSE, def |-> << [u |-> "imperial_pint", pk |-> "metric", pe |-> 0, n |-> 1, d |-> 1] >>]
  @@ "stone" :> [base |-> FALSE, def |-> << [u |-> "pound", pk |-> "metric", pe |-> 0, n |-> 1, d |-> 1] >>]
  @@ "arcsecond" :> [base |-> FALSE, def |-> << [u |-> "arcminute", pk |-> "metric", pe |-> 0, n |-> 1, d |-> 1] >>]
  @@ "rackunit" :> [base |-> FALSE, def |-> << [u |-> "metre", pk |-> "metric", pe |-> 0, n |-> 1, d |-> 1] >>]
  @@ "barrel" :> [base |-> FALSE, def |-> << [u |-> "gallon", pk |-> "metric", pe |-> 0, n |-> 1, d |-> 1] >>]
  @@ "unix_ms" :> [base |-> FALSE, def |-> << [u |-> "unix_s", pk |-> "metric", pe |-> 0, n |-> 1, d |-> 1] >>]
  @@ "dalton" :> [base |-> FALSE, def |-> << [u |-> "gram", pk |-> "metric", pe |-> 3, n |-> 1, d |-> 1] >>]
  @@ "torr" :> [base |-> FALSE, def |-> << [u |-> "pascal", pk |-> "metric", pe |-> 0, n |-> 1, d |-> 1] >>]
  @@ "newton" :> [base |-> FALSE, def |-> << [u |-> "gram", pk |-> "metric", pe |-> 3, n |-> 1, d |-> 1], [u |-> "metre", pk |-> "metric", pe |-> 0, n |-> 1, d |-> 1], [u |-> "second", pk |-> "metric", pe |-> 0, n |-> -2, d |-> 1] >>]
  @@ "julian_year" :> [base |-> FALSE, def |-> << [u |-> "day", pk |-> "metric", pe |-> 0, n |-> 1, d |-> 1] >>]
  @@ "dozen" :> [base |-> FALSE, def |-> <<  >>]
  @@ "mph" :> [base |-> FALSE, def |-> << [u |-> "mile", pk |-> "metric", pe |-> 0, n |-> 1, d |-> 1], [u |-> "hour", pk |-> "metric", pe |-> 0, n |-> -1, d |-> 1] >>]
  @@ "long_ton" :> [base |-> FALSE, def |-> << [u |-> "pound", pk |-> "metric", pe |-> 0, n |-> 1, d |-> 1] >>]
  @@ "volt" :> [base |-> FALSE, def |-> << [u |-> "gram", pk |-> "metric", pe |-> 3, n |-> 1, d |-> 1], [u |-> "metre", pk |-> "metric", pe |-> 0, n |-> 2, d |-> 1], [u |-> "second", pk |-> "metric", pe |-> 0, n |-> -3, d |-> 1], [u |-> "ampere", pk |-> "metric", pe |-> 0, n |-> -1, d |-> 1] >>]
  @@ "are" :> [base |-> FALSE, def |-> << [u |-> "metre", pk |-> "metric", pe |-> 0, n |-> 2, d |-> 1] >>]
  @@ "acre" :> [base |-> FALSE, def |-> << [u |-> "yard", pk |-> "metric", pe |-> 0, n |-> 2, d |-> 1] >>]
  @@ "weber" :> [base |-> FALSE, def |-> << [u |-> "volt", pk |-> "metric", pe |-> 0, n |-> 1, d |-> 1], [u |-> "second", pk |-> "metric", pe |-> 0, n |-> 1, d |-> 1] >>]
  @@ "barn" :> [base |-> FALSE, def |-> << [u |-> "metre", pk |-> "metric", pe |-> 0, n |-> 2, d |-> 1] >>]
  @@ "footcandle" :> [base |-> FALSE, def |-> << [u |-> "lumen", pk |-> "metric", pe |-> 0, n |-> 1, d |-> 1], [u |-> "foot", pk |-> "metric", pe |-> 0, n |-> -2, d |-> 1] >>]
  @@ "watt" :> [base |-> FALSE, def |-> << [u |-> "joule", pk |-> "metric", pe |-> 0, n |-> 1, d |-> 1], [u |-> "second", pk |-> "metric", pe |-> 0, n |-> -1, d |-> 1] >>]
  @@ "imperial_gill" :> [base |-> FALSE, def |-> << [u |-> "imperial_fluidounce", pk |-> "metric", pe |-> 0, n |-> 1, d |-> 1] >>]
  @@ "mpsi" :> [base |-> FALSE, def |-> << [u |-> "psi", pk |-> "metric", pe |-> 0, n |-> 1, d |-> 1] >>]
  @@ "hectare" :> [base |-> FALSE, def |-> << [u |-> "are", pk |-> "metric", pe |-> 0, n |-> 1, d |-> 1] >>]
  @@ "katal" :> [base |-> FALSE, def |-> << [u |-> "mole", pk |-> "metric", pe |-> 0, n |-> 1, d |-> 1], [u |-> "second", pk |-> "metric", pe |-> 0, n |-> -1, d |-> 1] >>]
  @@ "BTU" :> [base |-> FALSE, def |-> << [u |-> "joule", pk |-> "metric", pe |-> 0, n |-> 1, d |-> 1] >>]
  @@ "sievert" :> [base |-> FALSE, def |-> << [u |-> "joule", pk |-> "metric", pe |-> 0, n |-> 1, d |-> 1], [u |-> "gram", pk |-> "metric", pe |-> 3, n |-> -1, d |-> 1] >>]
  @@ "percent" :> [base |-> FALSE, def |-> <<  >>]
  @@ "darcy" :> [base |-> FALSE, def |-> << [u |-> "bar", pk |-> "metric", pe |-> 0, n |-> 1, d |-> 1], [u |-> "atmosphere", pk |-> "metric", pe |-> 0, n |-> -1, d |-> 1], [u |-> "metre", pk |-> "metric", pe |-> -6, n |-> 2, d |-> 1] >>]
  @@ "troy_ounce" :> [base |-> FALSE, def |-> << [u |-> "grain", pk |-> "metric", pe |-> 0, n |-> 1, d |-> 1] >>]
  @@ "gallon" :> [base |-> FALSE, def |-> << [u |-> "inch", pk |-> "metric", pe |-> 0, n |-> 3, d |-> 1] >>]
  @@ "pint" :> [base |-> FALSE, def |-> << [u |-> "gallon", pk |-> "metric", pe |-> 0, n |-> 1, d |-> 1] >>]
  @@ "hogshead" :> [base |-> FALSE, def |-> << [u |-> "gallon", pk |-> "metric", pe |-> 0, n |-> 1, d |-> 1] >>]
  @@ "planck_energy" :> [base |-> FALSE, def |-> << [u |-> "joule", pk |-> "metric", pe |-> 0, n |-> 1, d |-> 2], [u |-> "hertz", pk |-> "metric", pe |-> 0, n |-> -1, d |-> 2], [u |-> "metre", pk |-> "metric", pe |-> 0, n |-> 5, d |-> 2], [u |-> "second", pk |-> "metric", pe |-> 0, n |-> -5, d |-> 2], [u |-> "metre", pk |-> "metric", pe |-> 0, n |-> -3, d |-> 2], [u |-> "gram", pk |-> "metric", pe |-> 3, n |-> 1, d |-> 2], [u |-> "second", pk |-> "metric", pe |-> 0, n |-> 1, d |-> 1] >>]
  @@ "furlong" :> [base |-> FALSE, def |-> << [u |-> "yard", pk |-> "metric", pe |-> 0, n |-> 1, d |-> 1] >>]
  @@ "swimmingpool" :> [base |-> FALSE, def |-> << [u |-> "metre", pk |-> "metric", pe |-> 0, n |-> 1, d |-> 1], [u |-> "metre", pk |-> "metric", pe |-> 0, n |-> 1, d |-> 1], [u |-> "metre", pk |-> "metric", pe |-> 0, n |-> 1, d |-> 1] >>]
  @@ "imperial_fluidounce" :> [base |-> FALSE, def |-> << [u |-> "litre", pk |-> "metric", pe |-> -3, n |-> 1, d |-> 1] >>]
  @@ "molar" :> [base |-> FALSE, def |-> << [u |-> "mole", pk |-> "metric", pe |-> 0, n |-> 1, d |-> 1], [u |-> "litre", pk |-> "metric", pe |-> 0, n |-> -1, d |-> 1] >>]
  @@ "pound" :> [base |-> FALSE, def |-> << [u |-> "grain", pk |-> "metric", pe |-> 0, n |-> 1, d |-> 1] >>]

Forms == << [text |-> "m", u |-> "metre", pk |-> "metric", pe |-> 0],
  [text |-> "metre", u |-> "metre", pk |-> "metric", pe |-> 0],
  [text |-> "km", u |-> "metre", pk |-> "metric", pe |-> 3],
  [text |-> "mm", u |-> "metre", pk |-> "metric", pe |-> -3],
  [text |-> "s", u |-> "second", pk |-> "metric", pe |-> 0],
  [text |-> "second", u |-> "second", pk |-> "metric", pe |-> 0],
  [text |-> "ks", u |-> "second", pk |-> "metric", pe |-> 3],
  [text |-> "ms", u |-> "second", pk |-> "metric", pe |-> -3],
  [text |-> "g", u |-> "gram", pk |-> "metric", pe |-> 0],
  [text |-> "gram", u |-> "gram", pk |-> "metric", pe |-> 0],
  [text |-> "kg", u |-> "gram", pk |-> "metric", pe |-> 3],
  [text |-> "mg", u |-> "gram", pk |-> "metric", pe |-> -3],
  [text |-> "A", u |-> "ampere", pk |-> "metric", pe |-> 0],
  [text |-> "ampere", u |-> "ampere", pk |-> "metric", pe |-> 0],
  [text |-> "kA", u |-> "ampere", pk |-> "metric", pe |-> 3],
  [text |-> "mA", u |-> "ampere", pk |-> "metric", pe |-> -3],
  [text |-> "K", u |-> "kelvin", pk |-> "metric", pe |-> 0],
  [text |-> "kelvin", u |-> "kelvin", pk |-> "metric", pe |-> 0],
  [text |-> "kK", u |-> "kelvin", pk |-> "metric", pe |-> 3],
  [text |-> "mK", u |-> "kelvin", pk |-> "metric", pe |-> -3],
  [text |-> "mol", u |-> "mole", pk |-> "metric", pe |-> 0],
  [text |-> "mole", u |-> "mole", pk |-> "metric", pe |-> 0],
  [text |-> "kmol", u |-> "mole", pk |-> "metric", pe |-> 3],
  [text |-> "mmol", u |-> "mole", pk |-> "metric", pe |-> -3],
  [text |-> "cd", u |-> "candela", pk |-> "metric", pe |-> 0],
  [text |-> "candela", u |-> "candela", pk |-> "metric", pe |-> 0],
  [text |-> "kcd", u |-> "candela", pk |-> "metric", pe |-> 3],
  [text |-> "mcd", u |-> "candela", pk |-> "metric", pe |-> -3],
  [text |-> "€", u |-> "euro", pk |-> "metric", pe |-> 0],
  [text |-> "euro", u |-> "euro", pk |-> "metric", pe |-> 0],
  [text |-> "bit", u |-> "bit", pk |-> "metric", pe |-> 0],
  [text |-> "kbit", u |-> "bit", pk |-> "metric", pe |-> 3],
  [text |-> "mbit", u |-> "bit", pk |-> "metric", pe |-> -3],
  [text |-> "Kibit", u |-> "bit", pk |-> "binary", pe |-> 10],
  [text |-> "kibibit", u |-> "bit", pk |-> "binary", pe |-> 10],
  [text |-> "px", u |-> "pixel", pk |-> "metric", pe |-> 0],
  [text |-> "pixel", u |-> "pixel", pk |-> "metric", pe |-> 0],
  [text |-> "kpx", u |-> "pixel", pk |-> "metric", pe |-> 3],
  [text |-> "mpx", u |-> "pixel", pk |-> "metric", pe |-> -3],
  [text |-> "dot", u |-> "dot", pk |-> "metric", pe |-> 0],
  [text |-> "frame", u |-> "frame", pk |-> "metric", pe |-> 0],
  [text |-> "beat", u |-> "beat", pk |-> "metric", pe |-> 0],
  [text |-> "piece", u |-> "piece", pk |-> "metric", pe |-> 0],
  [text |-> "person", u |-> "person", pk |-> "metric", pe |-> 0],
  [text |-> "LOC", u |-> "LOC", pk |-> "metric", pe |-> 0],
  [text |-> "kLOC", u |-> "LOC", pk |-> "metric", pe |-> 3],
  [text |-> "mLOC", u |-> "LOC", pk |-> "metric", pe |-> -3],
  [text |-> "unix_s", u |-> "unix_s", pk |-> "metric", pe |-> 0],
  [text |-> "decade", u |-> "decade", pk |-> "metric", pe |-> 0],
  [text |-> "Hz", u |-> "hertz", pk |-> "metric", pe |-> 0],
  [text |-> "hertz", u |-> "hertz", pk |-> "metric", pe |-> 0],
  [text |-> "kHz", u |-> "hertz", pk |-> "metric", pe |-> 3],
  [text |-> "mHz", u |-> "hertz", pk |-> "metric", pe |-> -3],
  [text |-> "maxwell", u |-> "maxwell", pk |-> "metric", pe |-> 0],
  [text |-> "planck_temperature", u |-> "planck_temperature", pk |-> "metric", pe |-> 0],
  [text |-> "S", u |-> "siemens", pk |-> "metric", pe |-> 0],
  [text |-> "siemens", u |-> "siemens", pk |-> "metric", pe |-> 0],
  [text |-> "kS", u |-> "siemens", pk |-> "metric", pe |-> 3],
  [text |-> "mS", u |-> "siemens", pk |-> "metric", pe |-> -3],
  [text |-> "fermi", u |-> "fermi", pk |-> "metric", pe |-> 0],
  [text |-> "B", u |-> "byte", pk |-> "metric", pe |-> 0],
  [text |-> "byte", u |-> "byte", pk |-> "metric", pe |-> 0],
  [text |-> "kbyte", u |-> "byte", pk |-> "metric", pe |-> 3],
  [text |-> "mbyte", u |-> "byte", pk |-> "metric", pe |-> -3],
  [text |-> "Kibyte", u |-> "byte", pk |-> "binary", pe |-> 10],
  [text |-> "kibibyte", u |-> "byte", pk |-> "binary", pe |-> 10],
  [text |-> "Bq", u |-> "becquerel", pk |-> "metric", pe |-> 0],
  [text |-> "becquerel", u |-> "becquerel", pk |-> "metric", pe |-> 0],
  [text |-> "kBq", u |-> "becquerel", pk |-> "metric", pe |-> 3],
  [text |-> "mBq", u |-> "becquerel", pk |-> "metric", pe |-> -3],
  [text |-> "kph", u |-> "kph", pk |-> "metric", pe |-> 0],
  [text |-> "ppi", u |-> "ppi", pk |-> "metric", pe |-> 0],
  [text |-> "lbf", u |-> "pound_force", pk |-> "metric", pe |-> 0],
  [text |-> "pound_force", u |-> "pound_force", pk |-> "metric", pe |-> 0],
  [text |-> "Ry", u |-> "Ry", pk |-> "metric", pe |-> 0],
  [text |-> "molal", u |-> "molal", pk |-> "metric", pe |-> 0],
  [text |-> "kilomolal", u |-> "molal", pk |-> "metric", pe |-> 3],
  [text |-> "millimolal", u |-> "molal", pk |-> "metric", pe |-> -3],
  [text |-> "kgf", u |-> "kilogram_force", pk |-> "metric", pe |-> 0],
  [text |-> "kilogram_force", u |-> "kilogram_force", pk |-> "metric", pe |-> 0],
  [text |-> "lx", u |-> "lux", pk |-> "metric", pe |-> 0],
  [text |-> "lux", u |-> "lux", pk |-> "metric", pe |-> 0],
  [text |-> "klx", u |-> "lux", pk |-> "metric", pe |-> 3],
  [text |-> "mlx", u |-> "lux", pk |-> "metric", pe |-> -3],
  [text |-> "therm", u |-> "therm", pk |-> "metric", pe |-> 0],
  [text |-> "firkin", u |-> "firkin", pk |-> "metric", pe |-> 0],
  [text |-> "kilofirkin", u |-> "firkin", pk |-> "metric", pe |-> 3],
  [text |-> "millifirkin", u |-> "firkin", pk |-> "metric", pe |-> -3],
  [text |-> "au", u |-> "astronomicalunit", pk |-> "metric", pe |-> 0],
  [text |-> "astronomicalunit", u |-> "astronomicalunit", pk |-> "metric", pe |-> 0],
  [text |-> "trillion", u |-> "trillion", pk |-> "metric", pe |-> 0],
  [text |-> "footballfield", u |-> "footballfield", pk |-> "metric", pe |-> 0],
  [text |-> "yr", u |-> "year", pk |-> "metric", pe |-> 0],
  [text |-> "year", u |-> "year", pk |-> "metric", pe |-> 0],
  [text |-> "kyr", u |-> "year", pk |-> "metric", pe |-> 3],
  [text |-> "myr", u |-> "year", pk |-> "metric", pe |-> -3],
  [text |-> "Hg", u |-> "Hg", pk |-> "metric", pe |-> 0],
  [text |-> "tbsp", u |-> "tablespoon", pk |-> "metric", pe |-> 0],
  [text |-> "tablespoon", u |-> "tablespoon", pk |-> "metric", pe |-> 0],
  [text |-> "gregorian_year", u |-> "gregorian_year", pk |-> "metric", pe |-> 0],
  [text |-> "L", u |-> "litre", pk |-> "metric", pe |-> 0],
  [text |-> "litre", u |-> "litre", pk |-> "metric", pe |-> 0],
  [text |-> "kL", u |-> "litre", pk |-> "metric", pe |-> 3],
  [text |-> "mL", u |-> "litre", pk |-> "metric", pe |-> -3],
  [text |-> "rod", u |-> "rod", pk |-> "metric", pe |-> 0],
  [text |-> "UK_fldr", u |-> "imperial_fluid_drachm", pk |-> "metric", pe |-> 0],
  [text |-> "imperial_fluid_drachm", u |-> "imperial_fluid_drachm", pk |-> "metric", pe |-> 0],
  [text |-> "unix_µs", u |-> "unix_µs", pk |-> "metric", pe |-> 0],
  [text |-> "fortnight", u |-> "fortnight", pk |-> "metric", pe |-> 0],
  [text |-> "kilofortnight", u |-> "fortnight", pk |-> "metric", pe |-> 3],
  [text |-> "millifortnight", u |-> "fortnight", pk |-> "metric", pe |-> -3],
  [text |-> "Wh", u |-> "watthour", pk |-> "metric", pe |-> 0],
  [text |-> "watthour", u |-> "watthour", pk |-> "metric", pe |-> 0],
  [text |-> "kWh", u |-> "watthour", pk |-> "metric", pe |-> 3],
  [text |-> "mWh", u |-> "watthour", pk |-> "metric", pe |-> -3],
  [text |-> "ft", u |-> "foot", pk |-> "metric", pe |-> 0],
  [text |-> "foot", u |-> "foot", pk |-> "metric", pe |-> 0],
  [text |-> "rev", u |-> "revolution", pk |-> "metric", pe |-> 0],
  [text |-> "revolution", u |-> "revolution", pk |-> "metric", pe |-> 0],
  [text |-> "bar", u |-> "bar", pk |-> "metric", pe |-> 0],
  [text |-> "kbar", u |-> "bar", pk |-> "metric", pe |-> 3],
  [text |-> "mbar", u |-> "bar", pk |-> "metric", pe |-> -3],
  [text |-> "lm", u |-> "lumen", pk |-> "metric", pe |-> 0],
  [text |-> "lumen", u |-> "lumen", pk |-> "metric", pe |-> 0],
  [text |-> "klm", u |-> "lumen", pk |-> "metric", pe |-> 3],
  [text |-> "mlm", u |-> "lumen", pk |-> "metric", pe |-> -3],
  [text |-> "nt", u |-> "nit", pk |-> "metric", pe |-> 0],
  [text |-> "nit", u |-> "nit", pk |-> "metric", pe |-> 0],
  [text |-> "knt", u |-> "nit", pk |-> "metric", pe |-> 3],
  [text |-> "mnt", u |-> "nit", pk |-> "metric", pe |-> -3],
  [text |-> "long_hundredweight", u |-> "long_hundredweight", pk |-> "metric", pe |-> 0],
  [text |-> "thousand", u |-> "thousand", pk |-> "metric", pe |-> 0],
  [text |-> "partspermillion", u |-> "partspermillion", pk |-> "metric", pe |-> 0],
  [text |-> "T", u |-> "tesla", pk |-> "metric", pe |-> 0],
  [text |-> "tesla", u |-> "tesla", pk |-> "metric", pe |-> 0],
  [text |-> "kT", u |-> "tesla", pk |-> "metric", pe |-> 3],
  [text |-> "mT", u |-> "tesla", pk |-> "metric", pe |-> -3],
  [text |-> "UK_bu", u |-> "imperial_bushel", pk |-> "metric", pe |-> 0],
  [text |-> "imperial_bushel", u |-> "imperial_bushel", pk |-> "metric", pe |-> 0],
  [text |-> "UK_tbsp", u |-> "imperial_tablespoon", pk |-> "metric", pe |-> 0],
  [text |-> "imperial_tablespoon", u |-> "imperial_tablespoon", pk |-> "metric", pe |-> 0],
  [text |-> "floz", u |-> "fluidounce", pk |-> "metric", pe |-> 0],
  [text |-> "fluidounce", u |-> "fluidounce", pk |-> "metric", pe |-> 0],
  [text |-> "planck_length", u |-> "planck_length", pk |-> "metric", pe |-> 0],
  [text |-> "mil", u |-> "thou", pk |-> "metric", pe |-> 0],
  [text |-> "thou", u |-> "thou", pk |-> "metric", pe |-> 0],
  [text |-> "partspertrillion", u |-> "partspertrillion", pk |-> "metric", pe |-> 0],
  [text |-> "month", u |-> "month", pk |-> "metric", pe |-> 0],
  [text |-> "UK_gal", u |-> "imperial_gallon", pk |-> "metric", pe |-> 0],
  [text |-> "imperial_gallon", u |-> "imperial_gallon", pk |-> "metric", pe |-> 0],
  [text |-> "F", u |-> "farad", pk |-> "metric", pe |-> 0],
  [text |-> "farad", u |-> "farad", pk |-> "metric", pe |-> 0],
  [text |-> "kF", u |-> "farad", pk |-> "metric", pe |-> 3],
  [text |-> "mF", u |-> "farad", pk |-> "metric", pe |-> -3],
  [text |-> "hp", u |-> "horsepower", pk |-> "metric", pe |-> 0],
  [text |-> "horsepower", u |-> "horsepower", pk |-> "metric", pe |-> 0],
  [text |-> "Å", u |-> "angstrom", pk |-> "metric", pe |-> 0],
  [text |-> "angstrom", u |-> "angstrom", pk |-> "metric", pe |-> 0],
  [text |-> "KB", u |-> "KB", pk |-> "metric", pe |-> 0],
  [text |-> "hundred", u |-> "hundred", pk |-> "metric", pe |-> 0],
  [text |-> "partsperquadrillion", u |-> "partsperquadrillion", pk |-> "metric", pe |-> 0],
  [text |-> "′", u |-> "arcminute", pk |-> "metric", pe |-> 0],
  [text |-> "arcminute", u |-> "arcminute", pk |-> "metric", pe |-> 0],
  [text |-> "turn", u |-> "turn", pk |-> "metric", pe |-> 0],
  [text |-> "mi", u |-> "mile", pk |-> "metric", pe |-> 0],
  [text |-> "mile", u |-> "mile", pk |-> "metric", pe |-> 0],
  [text |-> "fathom", u |-> "fathom", pk |-> "metric", pe |-> 0],
  [text |-> "erg", u |-> "erg", pk |-> "metric", pe |-> 0],
  [text |-> "UK_tsp", u |-> "imperial_teaspoon", pk |-> "metric", pe |-> 0],
  [text |-> "imperial_teaspoon", u |-> "imperial_teaspoon", pk |-> "metric", pe |-> 0],
  [text |-> "C", u |-> "coulomb", pk |-> "metric", pe |-> 0],
  [text |-> "coulomb", u |-> "coulomb", pk |-> "metric", pe |-> 0],
  [text |-> "kC", u |-> "coulomb", pk |-> "metric", pe |-> 3],
  [text |-> "mC", u |-> "coulomb", pk |-> "metric", pe |-> -3],
  [text |-> "micron", u |-> "micron", pk |-> "metric", pe |-> 0],
  [text |-> "cup", u |-> "cup", pk |-> "metric", pe |-> 0],
  [text |-> "week", u |-> "week", pk |-> "metric", pe |-> 0],
  [text |-> "Oe", u |-> "oersted", pk |-> "metric", pe |-> 0],
  [text |-> "oersted", u |-> "oersted", pk |-> "metric", pe |-> 0],
  [text |-> "kOe", u |-> "oersted", pk |-> "metric", pe |-> 3],
  [text |-> "mOe", u |-> "oersted", pk |-> "metric", pe |-> -3],
  [text |-> "dpi", u |-> "dpi", pk |-> "metric", pe |-> 0],
  [text |-> "kn", u |-> "knot", pk |-> "metric", pe |-> 0],
  [text |-> "knot", u |-> "knot", pk |-> "metric", pe |-> 0],
  [text |-> "thermie", u |-> "thermie", pk |-> "metric", pe |-> 0],
  [text |-> "inHg", u |-> "inHg", pk |-> "metric", pe |-> 0],
  [text |-> "fps", u |-> "fps", pk |-> "metric", pe |-> 0],
  [text |-> "ton", u |-> "tonne", pk |-> "metric", pe |-> 0],
  [text |-> "tonne", u |-> "tonne", pk |-> "metric", pe |-> 0],
  [text |-> "kton", u |-> "tonne", pk |-> "metric", pe |-> 3],
  [text |-> "mton", u |-> "tonne", pk |-> "metric", pe |-> -3],
  [text |-> "min", u |-> "minute", pk |-> "metric", pe |-> 0],
  [text |-> "minute", u |-> "minute", pk |-> "metric", pe |-> 0],
  [text |-> "yd", u |-> "yard", pk |-> "metric", pe |-> 0],
  [text |-> "yard", u |-> "yard", pk |-> "metric", pe |-> 0],
  [text |-> "smoot", u |-> "smoot", pk |-> "metric", pe |-> 0],
  [text |-> "PSI", u |-> "psi", pk |-> "metric", pe |-> 0],
  [text |-> "psi", u |-> "psi", pk |-> "metric", pe |-> 0],
  [text |-> "RPM", u |-> "rpm", pk |-> "metric", pe |-> 0],
  [text |-> "rpm", u |-> "rpm", pk |-> "metric", pe |-> 0],
  [text |-> "planck_time", u |-> "planck_time", pk |-> "metric", pe |-> 0],
  [text |-> "tsp", u |-> "teaspoon", pk |-> "metric", pe |-> 0],
  [text |-> "teaspoon", u |-> "teaspoon", pk |-> "metric", pe |-> 0],
  [text |-> "century", u |-> "century", pk |-> "metric", pe |-> 0],
  [text |-> "gradian", u |-> "gradian", pk |-> "metric", pe |-> 0],
  [text |-> "million", u |-> "million", pk |-> "metric", pe |-> 0],
  [text |-> "billion", u |-> "billion", pk |-> "metric", pe |-> 0],
  [text |-> "J", u |-> "joule", pk |-> "metric", pe |-> 0],
  [text |-> "joule", u |-> "joule", pk |-> "metric", pe |-> 0],
  [text |-> "kJ", u |-> "joule", pk |-> "metric", pe |-> 3],
  [text |-> "mJ", u |-> "joule", pk |-> "metric", pe |-> -3],
  [text |-> "‰", u |-> "permille", pk |-> "metric", pe |-> 0],
  [text |-> "permille", u |-> "permille", pk |-> "metric", pe |-> 0],
  [text |-> "day", u |-> "day", pk |-> "metric", pe |-> 0],
  [text |-> "ozf", u |-> "ounce_force", pk |-> "metric", pe |-> 0],
  [text |-> "ounce_force", u |-> "ounce_force", pk |-> "metric", pe |-> 0],
  [text |-> "NM", u |-> "nautical_mile", pk |-> "metric", pe |-> 0],
  [text |-> "nautical_mile", u |-> "nautical_mile", pk |-> "metric", pe |-> 0],
  [text |-> "dwt", u |-> "pennyweight", pk |-> "metric", pe |-> 0],
  [text |-> "pennyweight", u |-> "pennyweight", pk |-> "metric", pe |-> 0],
  [text |-> "bps", u |-> "bps", pk |-> "metric", pe |-> 0],
  [text |-> "kbps", u |-> "bps", pk |-> "metric", pe |-> 3],
  [text |-> "mbps", u |-> "bps", pk |-> "metric", pe |-> -3],
  [text |-> "atm", u |-> "atmosphere", pk |-> "metric", pe |-> 0],
  [text |-> "atmosphere", u |-> "atmosphere", pk |-> "metric", pe |-> 0],
  [text |-> "planck_mass", u |-> "planck_mass", pk |-> "metric", pe |-> 0],
  [text |-> "Gy", u |-> "gray", pk |-> "metric", pe |-> 0],
  [text |-> "gray", u |-> "gray", pk |-> "metric", pe |-> 0],
  [text |-> "kGy", u |-> "gray", pk |-> "metric", pe |-> 3],
  [text |-> "mGy", u |-> "gray", pk |-> "metric", pe |-> -3],
  [text |-> "KSI", u |-> "ksi", pk |-> "metric", pe |-> 0],
  [text |-> "ksi", u |-> "ksi", pk |-> "metric", pe |-> 0],
  [text |-> "dyne", u |-> "dyne", pk |-> "metric", pe |-> 0],
  [text |-> "h", u |-> "hour", pk |-> "metric", pe |-> 0],
  [text |-> "hour", u |-> "hour", pk |-> "metric", pe |-> 0],
  [text |-> "gauss", u |-> "gauss", pk |-> "metric", pe |-> 0],
  [text |-> "°", u |-> "degree", pk |-> "metric", pe |-> 0],
  [text |-> "degree", u |-> "degree", pk |-> "metric", pe |-> 0],
  [text |-> "Ω", u |-> "ohm", pk |-> "metric", pe |-> 0],
  [text |-> "ohm", u |-> "ohm", pk |-> "metric", pe |-> 0],
  [text |-> "kΩ", u |-> "ohm", pk |-> "metric", pe |-> 3],
  [text |-> "mΩ", u |-> "ohm", pk |-> "metric", pe |-> -3],
  [text |-> "ly", u |-> "lightyear", pk |-> "metric", pe |-> 0],
  [text |-> "lightyear", u |-> "lightyear", pk |-> "metric", pe |-> 0],
  [text |-> "kly", u |-> "lightyear", pk |-> "metric", pe |-> 3],
  [text |-> "mly", u |-> "lightyear", pk |-> "metric", pe |-> -3],
  [text |-> "grain", u |-> "grain", pk |-> "metric", pe |-> 0],
  [text |-> "oz", u |-> "ounce", pk |-> "metric", pe |-> 0],
  [text |-> "ounce", u |-> "ounce", pk |-> "metric", pe |-> 0],
  [text |-> "Ah", u |-> "amperehour", pk |-> "metric", pe |-> 0],
  [text |-> "amperehour", u |-> "amperehour", pk |-> "metric", pe |-> 0],
  [text |-> "kAh", u |-> "amperehour", pk |-> "metric", pe |-> 3],
  [text |-> "mAh", u |-> "amperehour", pk |-> "metric", pe |-> -3],
  [text |-> "sr", u |-> "steradian", pk |-> "metric", pe |-> 0],
  [text |-> "steradian", u |-> "steradian", pk |-> "metric", pe |-> 0],
  [text |-> "ksr", u |-> "steradian", pk |-> "metric", pe |-> 3],
  [text |-> "msr", u |-> "steradian", pk |-> "metric", pe |-> -3],
  [text |-> "quadrillion", u |-> "quadrillion", pk |-> "metric", pe |-> 0],
  [text |-> "H", u |-> "henry", pk |-> "metric", pe |-> 0],
  [text |-> "henry", u |-> "henry", pk |-> "metric", pe |-> 0],
  [text |-> "kH", u |-> "henry", pk |-> "metric", pe |-> 3],
  [text |-> "mH", u |-> "henry", pk |-> "metric", pe |-> -3],
  [text |-> "league", u |-> "league", pk |-> "metric", pe |-> 0],
  [text |-> "in", u |-> "inch", pk |-> "metric", pe |-> 0],
  [text |-> "inch", u |-> "inch", pk |-> "metric", pe |-> 0],
  [text |-> "rad", u |-> "radian", pk |-> "metric", pe |-> 0],
  [text |-> "radian", u |-> "radian", pk |-> "metric", pe |-> 0],
  [text |-> "krad", u |-> "radian", pk |-> "metric", pe |-> 3],
  [text |-> "mrad", u |-> "radian", pk |-> "metric", pe |-> -3],
  [text |-> "partsperbillion", u |-> "partsperbillion", pk |-> "metric", pe |-> 0],
  [text |-> "millennium", u |-> "millennium", pk |-> "metric", pe |-> 0],
  [text |-> "eV", u |-> "electronvolt", pk |-> "metric", pe |-> 0],
  [text |-> "electronvolt", u |-> "electronvolt", pk |-> "metric", pe |-> 0],
  [text |-> "keV", u |-> "electronvolt", pk |-> "metric", pe |-> 3],
  [text |-> "meV", u |-> "electronvolt", pk |-> "metric", pe |-> -3],
  [text |-> "mmHg", u |-> "mmHg", pk |-> "metric", pe |-> 0],
  [text |-> "metric_tsp", u |-> "metric_teaspoon", pk |-> "metric", pe |-> 0],
  [text |-> "metric_teaspoon", u |-> "metric_teaspoon", pk |-> "metric", pe |-> 0],
  [text |-> "UK_pt", u |-> "imperial_pint", pk |-> "metric", pe |-> 0],
  [text |-> "imperial_pint", u |-> "imperial_pint", pk |-> "metric", pe |-> 0],
  [text |-> "St", u |-> "stokes", pk |-> "metric", pe |-> 0],
  [text |-> "stokes", u |-> "stokes", pk |-> "metric", pe |-> 0],
  [text |-> "kSt", u |-> "stokes", pk |-> "metric", pe |-> 3],
  [text |-> "mSt", u |-> "stokes", pk |-> "metric", pe |-> -3],
  [text |-> "BPM", u |-> "bpm", pk |-> "metric", pe |-> 0],
  [text |-> "bpm", u |-> "bpm", pk |-> "metric", pe |-> 0],
  [text |-> "mpg", u |-> "mpg", pk |-> "metric", pe |-> 0],
  [text |-> "sidereal_day", u |-> "sidereal_day", pk |-> "metric", pe |-> 0],
  [text |-> "pc", u |-> "parsec", pk |-> "metric", pe |-> 0],
  [text |-> "parsec", u |-> "parsec", pk |-> "metric", pe |-> 0],
  [text |-> "kpc", u |-> "parsec", pk |-> "metric", pe |-> 3],
  [text |-> "mpc", u |-> "parsec", pk |-> "metric", pe |-> -3],
  [text |-> "quintillion", u |-> "quintillion", pk |-> "metric", pe |-> 0],
  [text |-> "cal", u |-> "calorie", pk |-> "metric", pe |-> 0],
  [text |-> "calorie", u |-> "calorie", pk |-> "metric", pe |-> 0],
  [text |-> "kcal", u |-> "calorie", pk |-> "metric", pe |-> 3],
  [text |-> "mcal", u |-> "calorie", pk |-> "metric", pe |-> -3],
  [text |-> "cc", u |-> "cc", pk |-> "metric", pe |-> 0],
  [text |-> "poise", u |-> "poise", pk |-> "metric", pe |-> 0],
  [text |-> "kilopoise", u |-> "poise", pk |-> "metric", pe |-> 3],
  [text |-> "millipoise", u |-> "poise", pk |-> "metric", pe |-> -3],
  [text |-> "metric_tbsp", u |-> "metric_tablespoon", pk |-> "metric", pe |-> 0],
  [text |-> "metric_tablespoon", u |-> "metric_tablespoon", pk |-> "metric", pe |-> 0],
  [text |-> "Pa", u |-> "pascal", pk |-> "metric", pe |-> 0],
  [text |-> "pascal", u |-> "pascal", pk |-> "metric", pe |-> 0],
  [text |-> "kPa", u |-> "pascal", pk |-> "metric", pe |-> 3],
  [text |-> "mPa", u |-> "pascal", pk |-> "metric", pe |-> -3],
  [text |-> "UK_qt", u |-> "imperial_quart", pk |-> "metric", pe |-> 0],
  [text |-> "imperial_quart", u |-> "imperial_quart", pk |-> "metric", pe |-> 0],
  [text |-> "stone", u |-> "stone", pk |-> "metric", pe |-> 0],
  [text |-> "″", u |-> "arcsecond", pk |-> "metric", pe |-> 0],
  [text |-> "arcsecond", u |-> "arcsecond", pk |-> "metric", pe |-> 0],
  [text |-> "kiloarcsecond", u |-> "arcsecond", pk |-> "metric", pe |-> 3],
  [text |-> "milliarcsecond", u |-> "arcsecond", pk |-> "metric", pe |-> -3],
  [text |-> "RU", u |-> "rackunit", pk |-> "metric", pe |-> 0],
  [text |-> "rackunit", u |-> "rackunit", pk |-> "metric", pe |-> 0],
  [text |-> "barrel", u |-> "barrel", pk |-> "metric", pe |-> 0],
  [text |-> "unix_ms", u |-> "unix_ms", pk |-> "metric", pe |-> 0],
  [text |-> "Da", u |-> "dalton", pk |-> "metric", pe |-> 0],
  [text |-> "dalton", u |-> "dalton", pk |-> "metric", pe |-> 0],
  [text |-> "torr", u |-> "torr", pk |-> "metric", pe |-> 0],
  [text |-> "N", u |-> "newton", pk |-> "metric", pe |-> 0],
  [text |-> "newton", u |-> "newton", pk |-> "metric", pe |-> 0],
  [text |-> "kN", u |-> "newton", pk |-> "metric", pe |-> 3],
  [text |-> "mN", u |-> "newton", pk |-> "metric", pe |-> -3],
  [text |-> "julian_year", u |-> "julian_year", pk |-> "metric", pe |-> 0],
  [text |-> "dozen", u |-> "dozen", pk |-> "metric", pe |-> 0],
  [text |-> "mph", u |-> "mph", pk |-> "metric", pe |-> 0],
  [text |-> "long_ton", u |-> "long_ton", pk |-> "metric", pe |-> 0],
  [text |-> "V", u |-> "volt", pk |-> "metric", pe |-> 0],
  [text |-> "volt", u |-> "volt", pk |-> "metric", pe |-> 0],
  [text |-> "kV", u |-> "volt", pk |-> "metric", pe |-> 3],
  [text |-> "mV", u |-> "volt", pk |-> "metric", pe |-> -3],
  [text |-> "are", u |-> "are", pk |-> "metric", pe |-> 0],
  [text |-> "acre", u |-> "acre", pk |-> "metric", pe |-> 0],
  [text |-> "Wb", u |-> "weber", pk |-> "metric", pe |-> 0],
  [text |-> "weber", u |-> "weber", pk |-> "metric", pe |-> 0],
  [text |-> "kWb", u |-> "weber", pk |-> "metric", pe |-> 3],
  [text |-> "mWb", u |-> "weber", pk |-> "metric", pe |-> -3],
  [text |-> "barn", u |-> "barn", pk |-> "metric", pe |-> 0],
  [text |-> "kilobarn", u |-> "barn", pk |-> "metric", pe |-> 3],
  [text |-> "millibarn", u |-> "barn", pk |-> "metric", pe |-> -3],
  [text |-> "fc", u |-> "footcandle", pk |-> "metric", pe |-> 0],
  [text |-> "footcandle", u |-> "footcandle", pk |-> "metric", pe |-> 0],
  [text |-> "W", u |-> "watt", pk |-> "metric", pe |-> 0],
  [text |-> "watt", u |-> "watt", pk |-> "metric", pe |-> 0],
  [text |-> "kW", u |-> "watt", pk |-> "metric", pe |-> 3],
  [text |-> "mW", u |-> "watt", pk |-> "metric", pe |-> -3],
  [text |-> "UK_gi", u |-> "imperial_gill", pk |-> "metric", pe |-> 0],
  [text |-> "imperial_gill", u |-> "imperial_gill", pk |-> "metric", pe |-> 0],
  [text |-> "MPSI", u |-> "mpsi", pk |-> "metric", pe |-> 0],
  [text |-> "mpsi", u |-> "mpsi", pk |-> "metric", pe |-> 0],
  [text |-> "ha", u |-> "hectare", pk |-> "metric", pe |-> 0],
  [text |-> "hectare", u |-> "hectare", pk |-> "metric", pe |-> 0],
  [text |-> "kat", u |-> "katal", pk |-> "metric", pe |-> 0],
  [text |-> "katal", u |-> "katal", pk |-> "metric", pe |-> 0],
  [text |-> "kkat", u |-> "katal", pk |-> "metric", pe |-> 3],
  [text |-> "mkat", u |-> "katal", pk |-> "metric", pe |-> -3],
  [text |-> "BTU", u |-> "BTU", pk |-> "metric", pe |-> 0],
  [text |-> "Sv", u |-> "sievert", pk |-> "metric", pe |-> 0],
  [text |-> "sievert", u |-> "sievert", pk |-> "metric", pe |-> 0],
  [text |-> "kSv", u |-> "sievert", pk |-> "metric", pe |-> 3],
  [text |-> "mSv", u |-> "sievert", pk |-> "metric", pe |-> -3],
  [text |-> "%", u |-> "percent", pk |-> "metric", pe |-> 0],
  [text |-> "percent", u |-> "percent", pk |-> "metric", pe |-> 0],
  [text |-> "darcy", u |-> "darcy", pk |-> "metric", pe |-> 0],
  [text |-> "kilodarcy", u |-> "darcy", pk |-> "metric", pe |-> 3],
  [text |-> "millidarcy", u |-> "darcy", pk |-> "metric", pe |-> -3],
  [text |-> "ozt", u |-> "troy_ounce", pk |-> "metric", pe |-> 0],
  [text |-> "troy_ounce", u |-> "troy_ounce", pk |-> "metric", pe |-> 0],
  [text |-> "gal", u |-> "gallon", pk |-> "metric", pe |-> 0],
  [text |-> "gallon", u |-> "gallon", pk |-> "metric", pe |-> 0],
  [text |-> "pint", u |-> "pint", pk |-> "metric", pe |-> 0],
  [text |-> "hogshead", u |-> "hogshead", pk |-> "metric", pe |-> 0],
  [text |-> "planck_energy", u |-> "planck_energy", pk |-> "metric", pe |-> 0],
  [text |-> "furlong", u |-> "furlong", pk |-> "metric", pe |-> 0],
  [text |-> "kilofurlong", u |-> "furlong", pk |-> "metric", pe |-> 3],
  [text |-> "millifurlong", u |-> "furlong", pk |-> "metric", pe |-> -3],
  [text |-> "swimmingpool", u |-> "swimmingpool", pk |-> "metric", pe |-> 0],
  [text |-> "UK_floz", u |-> "imperial_fluidounce", pk |-> "metric", pe |-> 0],
  [text |-> "imperial_fluidounce", u |-> "imperial_fluidounce", pk |-> "metric", pe |-> 0],
  [text |-> "molar", u |-> "molar", pk |-> "metric", pe |-> 0],
  [text |-> "kilomolar", u |-> "molar", pk |-> "metric", pe |-> 3],
  [text |-> "millimolar", u |-> "molar", pk |-> "metric", pe |-> -3],
  [text |-> "lb", u |-> "pound", pk |-> "metric", pe |-> 0],
  [text |-> "pound", u |-> "pound", pk |-> "metric", pe |-> 0] >>
Partners == {1, 5, 11, 322, 234, 264, 364, 237, 3}
Partners2 == {1, 5, 11}
SumPartners == {1, 5, 9, 13, 17, 21, 25, 29, 31, 36, 40, 41, 42, 43, 44, 45, 48, 49, 50, 54, 55, 56, 60, 61, 67, 71, 72, 73, 75, 76, 79, 81, 85, 86, 89, 91, 92, 93, 97, 98, 100, 101, 105, 106, 108, 109, 112, 116, 118, 120, 123, 127, 131, 132, 133, 134, 138, 140, 142, 144, 145, 147, 148, 149, 151, 155, 157, 159, 160, 161, 162, 164, 165, 167, 168, 169, 171, 175, 176, 177, 178, 182, 183, 185, 186, 187, 188, 192, 194, 196, 197, 199, 201, 202, 204, 205, 206, 207, 208, 212, 214, 215, 217, 219, 221, 224, 226, 227, 231, 233, 234, 236, 237, 239, 243, 247, 248, 250, 254, 258, 259, 263, 264, 266, 270, 271, 272, 276, 277, 279, 281, 285, 287, 288, 289, 293, 294, 298, 299, 302, 304, 308, 310, 311, 315, 317, 318, 319, 321, 322, 326, 327, 328, 329, 330, 334, 335, 336, 340, 343, 345, 349, 351, 353, 355, 359, 360, 364, 366, 369, 371, 373, 374, 375, 376, 379, 380, 382, 385}
PairPartners == {1, 5, 9, 13, 17, 21, 25, 29, 31, 36, 40, 41, 42, 43, 44, 45, 48, 49, 50, 54, 55, 56, 60, 61, 67, 71, 72, 73, 75, 76, 79, 81, 85, 86, 89, 91, 92, 93, 97, 98, 100, 101, 105, 106, 108, 109, 112, 116, 118, 120, 123, 127, 131, 132, 133, 134, 138, 140, 142, 144, 145, 147, 148, 149, 151, 155, 157, 159, 160, 161, 162, 164, 165, 167, 168, 169, 171, 175, 176, 177, 178, 182, 183, 185, 186, 187, 188, 192, 194, 196, 197, 199, 201, 202, 204, 205, 206, 207, 208, 212, 214, 215, 217, 219, 221, 224, 226, 227, 231, 233, 234, 236, 237, 239, 243, 247, 248, 250, 254, 258, 259, 263, 264, 266, 270, 271, 272, 276, 277, 279, 281, 285, 287, 288, 289, 293, 294, 298, 299, 302, 304, 308, 310, 311, 315, 317, 318, 319, 321, 322, 326, 327, 328, 329, 330, 334, 335, 336, 340, 343, 345, 349, 351, 353, 355, 359, 360, 364, 366, 369, 371, 373, 374, 375, 376, 379, 380, 382, 385}
CompoundPartners == {1, 264, 3, 165, 5, 234, 9, 385, 101, 371, 61, 31, 208, 294, 237, 266}
====
