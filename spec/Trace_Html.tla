----------------------------- MODULE Trace_Html -----------------------------
(***************************************************************************)
(* Trace validation for C20 (J direction): every call the diagnostic       *)
(* renderer (codespan term::emit) made on a real HtmlWriter - new,         *)
(* set_color, reset, write(text) - must be a step of the writer of         *)
(* Html.tla, and what the real writer appended to its buffer must be what  *)
(* the specification appends (Chunk(color, text)); NoUserMarkup is checked *)
(* in every state of the trace.                                            *)
(* WriterEscapes = TRUE judges by the rule C20 demands; FALSE by the rule  *)
(* "write copies its text verbatim" (used only to name a deviation).       *)
(* Trace file: environment variable TRACE (ndjson, one event per line).    *)
(***************************************************************************)
EXTENDS Html, Json, IOUtils

VARIABLES l,    \* index of the next event to consume
          tr    \* the recorded trace (constant)

tvars == <<wvars, l, tr>>

TraceInit == /\ WInit
             /\ l = 1
             /\ tr = ndJsonDeserialize(IOEnv.TRACE)

Step(e) == \/ e.ev = "new" /\ New
           \/ e.ev = "set" /\ SetColor([set |-> TRUE, fg |-> e.fg, bold |-> e.bold])
           \/ e.ev = "reset" /\ Reset
           \/ /\ e.ev = "write"
              /\ Write(e.text)
              /\ e.app = Chunk(color, e.text)

TraceNext == /\ l <= Len(tr)
             /\ Step(tr[l])
             /\ l' = l + 1
             /\ UNCHANGED tr

TraceSpec == TraceInit /\ [][TraceNext]_tvars

\* checked only under the demanded rule
TraceNoUserMarkup == NoUserMarkup

TraceAccepted ==
    LET n == Len(ndJsonDeserialize(IOEnv.TRACE))
        d == TLCGet("stats").diameter - 1
    IN IF d = n THEN TRUE
       ELSE /\ PrintT(<<"REJECTED", ToJson([matched |-> d, total |-> n])>>)
            /\ FALSE
=============================================================================
