-------------------------------- MODULE Infer --------------------------------
(***************************************************************************)
(* C16: inferred function signatures.                                      *)
(* A function `fn f(x, y) = body` without annotations is typed with        *)
(* symbolic dimensions: the dimension of each parameter is an unknown      *)
(* exponent vector; the dimension of every sub-expression is an affine     *)
(* form  c1*dim(x) + c2*dim(y) + k  (coefficients c rational, k a constant *)
(* vector); every +, -, comparison, conditional contributes one linear     *)
(* equation.  The definition is accepted iff the system is solvable        *)
(* (Gaussian elimination over the rationals, two unknowns per base         *)
(* dimension).  Calls are typed by instantiation (Typing!TypeOf).          *)
(***************************************************************************)
EXTENDS Typing

\* symbolic type: k = "sym" with c = <<c1, c2>>, v = constant vector; or "bool" / "err"
Sym(c, v) == [k |-> "sym", c |-> c, v |-> v]
SBool == [k |-> "bool", c |-> <<R(0), R(0)>>, v |-> Scalar]
SErr(e) == [k |-> "err", c |-> <<R(0), R(0)>>, v |-> Scalar, e |-> e]
SMul(a, b) == Sym(<<RAdd(a.c[1], b.c[1]), RAdd(a.c[2], b.c[2])>>, VAdd(a.v, b.v))
SDiv(a, b) == Sym(<<RSub(a.c[1], b.c[1]), RSub(a.c[2], b.c[2])>>, VSub(a.v, b.v))
SPow(a, r) == Sym(<<RMul(a.c[1], r), RMul(a.c[2], r)>>, VScale(a.v, r))
\* equation a = b  as a row  <<c1, c2, rhs vector>>  meaning c1*X + c2*Y = rhs
EqRow(a, b) == << RSub(a.c[1], b.c[1]), RSub(a.c[2], b.c[2]), VSub(b.v, a.v) >>
IsScalarSym(a) == RIsZero(a.c[1]) /\ RIsZero(a.c[2]) /\ VIsZero(a.v)

\* result of symbolic typing: [t, eqs]
Res(t, eqs) == [t |-> t, eqs |-> eqs]
RECURSIVE SymType(_)
SymType(e) ==
  CASE e.op = "num" -> Res(Sym(<<R(0), R(0)>>, Scalar), << >>)
    [] e.op = "unit" -> Res(Sym(<<R(0), R(0)>>, UnitDim(e.name)), << >>)
    [] e.op = "var" -> IF e.name = "x" THEN Res(Sym(<<R(1), R(0)>>, Scalar), << >>)
                       ELSE IF e.name = "y" THEN Res(Sym(<<R(0), R(1)>>, Scalar), << >>)
                       ELSE Res(SErr("unknown identifier"), << >>)
    [] e.op \in {"add", "sub", "lt", "eq", "conv"} ->
         LET a == SymType(e.args[1])
             b == SymType(e.args[2]) IN
         IF a.t.k = "err" THEN a ELSE IF b.t.k = "err" THEN b
         ELSE IF a.t.k # "sym" \/ b.t.k # "sym" THEN Res(SErr("expected dimension type"), << >>)
         ELSE Res(IF e.op \in {"lt", "eq"} THEN SBool ELSE a.t, a.eqs \o b.eqs \o << EqRow(a.t, b.t) >>)
    [] e.op \in {"mul", "div"} ->
         LET a == SymType(e.args[1])
             b == SymType(e.args[2]) IN
         IF a.t.k = "err" THEN a ELSE IF b.t.k = "err" THEN b
         ELSE IF a.t.k # "sym" \/ b.t.k # "sym" THEN Res(SErr("expected dimension type"), << >>)
         ELSE Res(IF e.op = "mul" THEN SMul(a.t, b.t) ELSE SDiv(a.t, b.t), a.eqs \o b.eqs)
    [] e.op = "neg" -> SymType(e.args[1])
    [] e.op = "pow" ->
         LET a == SymType(e.args[1])
             c == ConstEval(e.args[2]) IN
         IF a.t.k = "err" THEN a
         ELSE IF a.t.k # "sym" THEN Res(SErr("expected dimension type"), << >>)
         ELSE IF ~c.ok THEN Res(SErr("exponent"), << >>)
         ELSE Res(SPow(a.t, c.v), a.eqs)
    [] e.op = "if" ->
         LET c == SymType(e.args[1])
             a == SymType(e.args[2])
             b == SymType(e.args[3]) IN
         IF c.t.k = "err" THEN c ELSE IF a.t.k = "err" THEN a ELSE IF b.t.k = "err" THEN b
         ELSE IF c.t.k # "bool" \/ a.t.k # "sym" \/ b.t.k # "sym" THEN Res(SErr("if"), << >>)
         ELSE Res(a.t, c.eqs \o a.eqs \o b.eqs \o << EqRow(a.t, b.t) >>)
    [] e.op = "call" ->   \* library generics: sqrt<D>(x: D^2) -> D, abs<D>(x: D) -> D, max2<D>(a: D, b: D) -> D (defined by the harness set-up)
         LET a == SymType(e.args[1]) IN
         IF a.t.k = "err" THEN a
         ELSE IF a.t.k # "sym" THEN Res(SErr("expected dimension type"), << >>)
         ELSE IF e.name = "sqrt" THEN Res(SPow(a.t, <<1, 2>>), a.eqs)
         ELSE IF e.name = "abs" THEN a
         ELSE \* max
              LET b == SymType(e.args[2]) IN
              IF b.t.k = "err" THEN b ELSE IF b.t.k # "sym" THEN Res(SErr("expected dimension type"), << >>)
              ELSE Res(a.t, a.eqs \o b.eqs \o << EqRow(a.t, b.t) >>)

\* ---- solvability of a system of rows <<c1, c2, rhs>> (two unknowns X, Y; rhs is a vector: one system
\* per base dimension sharing the coefficients).  Gaussian elimination.
RowScale(r, s) == << RMul(r[1], s), RMul(r[2], s), VScale(r[3], s) >>
RowSub(r, q) == << RSub(r[1], q[1]), RSub(r[2], q[2]), VSub(r[3], q[3]) >>
\* eliminate column col using pivot row p (p[col] # 0)
Elim(r, p, col) == IF RIsZero(r[col]) THEN r ELSE RowSub(r, RowScale(p, RDiv(r[col], p[col])))
RECURSIVE MapElim(_, _, _)
MapElim(rows, p, col) == IF rows = << >> THEN << >> ELSE << Elim(Head(rows), p, col) >> \o MapElim(Tail(rows), p, col)
RECURSIVE RemoveAt(_, _)
RemoveAt(s, i) == SubSeq(s, 1, i - 1) \o SubSeq(s, i + 1, Len(s))
HasPivot(rows, col) == \E i \in 1..Len(rows) : ~RIsZero(rows[i][col])
PivotIdx(rows, col) == CHOOSE i \in 1..Len(rows) : ~RIsZero(rows[i][col])
AfterCol(rows, col) == IF HasPivot(rows, col)
                       THEN LET i == PivotIdx(rows, col) IN MapElim(RemoveAt(rows, i), rows[i], col)
                       ELSE rows
Solvable(rows) == LET r1 == AfterCol(rows, 1)
                      r2 == AfterCol(r1, 2) IN
                  \A i \in 1..Len(r2) : (RIsZero(r2[i][1]) /\ RIsZero(r2[i][2])) => VIsZero(r2[i][3])

DefAccepted(body) == LET s == SymType(body) IN s.t.k # "err" /\ Solvable(s.eqs)
=============================================================================
