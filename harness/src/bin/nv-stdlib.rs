//! C23 (StdlibLaws.tla): evaluation of generated round-trip / unit_list expressions on a prelude-loaded
//! context (G and the comparator half of J), and recording of random mixed-unit splits over the integer
//! chains of the specification for validation by Trace_StdlibLaws.tla (J).
use nvh::session::*;
use nvh::util::*;
use numbat::value::Value;
use numbat::Context;
use serde_json::{json, Value as J};

const REFRESH: usize = 300;

fn prelude_ctx() -> Result<Context, String> {
    let mut ctx = new_context(&[], true);
    let r = run_input(&mut ctx, "use prelude");
    if r.outcome != "ok" { return Err(format!("prelude: {}", r.message)); }
    Ok(ctx)
}

/// unit as text: factors `[<prefixkind><exp>:]<unit name>[^n[/d]]` joined by '*', "" for a scalar
fn unit_text(fs: &[numbat::verif::FactorParts]) -> String {
    fs.iter().map(|f| {
        let mut s = String::new();
        if f.3 != 0 { s.push_str(&format!("{}{}:", f.2, f.3)); }
        s.push_str(&f.0);
        if !(f.4 == 1 && f.5 == 1) {
            s.push_str(&format!("^{}", f.4));
            if f.5 != 1 { s.push_str(&format!("/{}", f.5)); }
        }
        s
    }).collect::<Vec<_>>().join("*")
}

/// plain-data view of a value: quantities as exact f64 text + unit text, instants as exact nanoseconds
fn value_json(v: &Value) -> J {
    match v {
        Value::Quantity(q) => {
            let p = numbat::verif::quantity_parts(q);
            json!({"k": "q", "v": format!("{:e}", p.value), "u": unit_text(&p.unit)})
        }
        Value::DateTime(z) => json!({"k": "dt", "ns": z.timestamp().as_nanosecond().to_string()}),
        Value::List(l) => json!({"k": "list", "items": l.iter().map(value_json).collect::<Vec<_>>()}),
        Value::Boolean(b) => json!({"k": "bool", "v": b}),
        other => json!({"k": "other", "text": other.to_string()}),
    }
}

fn step_json(ctx: &mut Context, text: &str) -> J {
    let r = run_input(ctx, text);
    if r.outcome != "ok" {
        return json!({"outcome": r.outcome, "kind": r.kind, "msg": r.message.chars().take(300).collect::<String>()});
    }
    match &r.value {
        Some(v) => json!({"outcome": "ok", "val": value_json(v)}),
        None => json!({"outcome": "ok"}),
    }
}

/// eval --cases f --out f [--threads n]: case {id, steps: [statement text ...]}; all steps of all cases of a
/// thread run on ONE prelude context (variables defined by `let` steps are visible to later steps).
fn eval(args: &[String]) -> i32 {
    let cases = read_ndjson(arg(args, "--cases").expect("--cases"));
    let threads = arg_u64(args, "--threads", 16) as usize;
    let base = match prelude_ctx() { Ok(c) => c, Err(e) => { eprintln!("{e}"); return 2; } };
    let n = cases.len();
    let chunk = n.div_ceil(threads.max(1)).max(1);
    let chunks: Vec<&[J]> = cases.chunks(chunk).collect();
    let results: Vec<Vec<J>> = par_map(&chunks, threads, |ch| {
        let mut ctx = base.clone();
        let mut used = 0usize;
        ch.iter().map(|c| {
            // every statement adds constants to the VM of the context and the constant table is limited to 2^16
            // entries (the VM asserts): start from a fresh clone of the prelude context every REFRESH cases
            if used >= REFRESH { ctx = base.clone(); used = 0; }
            used += 1;
            let outs: Vec<J> = c["steps"].as_array().unwrap().iter().map(|s| step_json(&mut ctx, s.as_str().unwrap())).collect();
            json!({"id": c["id"], "r": outs})
        }).collect()
    });
    let mut out = Out::new(arg(args, "--out"));
    for r in results.iter().flatten() { out.line(r); }
    out.flush();
    0
}

struct Chain { id: String, units: Vec<String>, ratios: Vec<u64> }

/// record --chains f.json --seed s --events n --out f: random mixed-unit splits over the integer chains of
/// the specification.  Input value = sign * N / 2^m of the smallest unit (N < 2^31, m fraction bits); the
/// observed parts are recorded as integers (the last one scaled by 2^m) when they are exactly that, else the
/// event carries exact = false and the f64 texts (judged by the comparator, not by TLC).
fn record(args: &[String]) -> i32 {
    let text = std::fs::read_to_string(arg(args, "--chains").expect("--chains")).expect("chains file");
    let cj: J = serde_json::from_str(&text).expect("chains json");
    let chains: Vec<Chain> = cj.as_array().unwrap().iter().map(|c| Chain {
        id: c["id"].as_str().unwrap().to_string(),
        units: c["units"].as_array().unwrap().iter().map(|u| u.as_str().unwrap().to_string()).collect(),
        ratios: c["ratios"].as_array().unwrap().iter().map(|r| r.as_u64().unwrap()).collect(),
    }).collect();
    let seed = arg_u64(args, "--seed", 1);
    let events = arg_u64(args, "--events", 1000) as usize;
    let threads = arg_u64(args, "--threads", 16) as usize;
    let base = match prelude_ctx() { Ok(c) => c, Err(e) => { eprintln!("{e}"); return 2; } };
    // inputs are drawn first (deterministic in the seed), evaluation is parallel and order preserving
    let mut rng = Rng::new(seed);
    let limit: u64 = (1u64 << 31) - 1;
    let mut inputs = vec![];
    while inputs.len() < events {
        let ci = rng.below(chains.len() as u64) as usize;
        let ch = &chains[ci];
        let m = *rng.pick(&[0u32, 0, 0, 1, 2, 3, 4, 8, 10]);
        let scale = 1u64 << m;
        // weights of the units in the smallest unit
        let mut w = vec![1u64; ch.units.len()];
        for i in (0..ch.ratios.len()).rev() { w[i] = w[i + 1] * ch.ratios[i]; }
        let maxn = limit / scale;
        let nn = match rng.below(4) {
            0 => {   // log-uniform magnitude
                let bits = 1 + rng.below(63 - (maxn.leading_zeros() as u64)) as u32;
                rng.below(1u64 << bits)
            }
            1 => {   // a whole number of one of the larger units, or just beside it
                let wi = w[rng.below(w.len() as u64) as usize];
                let k = rng.below((maxn / wi).max(1)) + 1;
                let b = k * wi;
                match rng.below(3) { 0 => b, 1 => b.saturating_sub(1), _ => b + 1 }
            }
            2 => rng.below(w[0] * 3 + 1),
            _ => rng.below(maxn),
        };
        if nn > maxn { continue; }
        // fraction: anything, or the largest fraction below the next whole number of the smallest unit
        let f = if m == 0 { 0 } else if rng.chance(1, 3) { scale - 1 } else { rng.below(scale) };
        let big_n = nn * scale + f;
        if big_n > limit { continue; }
        let sign: i64 = if rng.chance(1, 4) { -1 } else { 1 };
        inputs.push((ci, m, sign, big_n));
    }
    let chunk = inputs.len().div_ceil(threads.max(1)).max(1);
    let chunks: Vec<&[(usize, u32, i64, u64)]> = inputs.chunks(chunk).collect();
    let results: Vec<Vec<J>> = par_map(&chunks, threads, |chk| {
        let mut ctx = base.clone();
        let mut used = 0usize;
        chk.iter().map(|&(ci, m, sign, big_n)| {
            if used >= REFRESH { ctx = base.clone(); used = 0; }
            used += 1;
            let ch = &chains[ci];
            let scale = (1u64 << m) as f64;
            let lit = format!("({}{}/{})", if sign < 0 { "-" } else { "" }, big_n, 1u64 << m);
            let code = format!("unit_list([{}], {} {})", ch.units.join(", "), lit, ch.units.last().unwrap());
            let r = run_input(&mut ctx, &code);
            let mut ev = json!({"chain": ch.id, "m": m, "sign": sign, "n": big_n, "code": code, "outcome": r.outcome});
            let mut exact = false;
            let mut parts: Vec<i64> = vec![];
            let mut raw: Vec<J> = vec![];
            let mut units_ok = false;
            if let Some(Value::List(l)) = &r.value {
                let items: Vec<&Value> = l.iter().collect();
                exact = items.len() == ch.units.len();
                units_ok = exact;
                for (i, it) in items.iter().enumerate() {
                    if let Value::Quantity(q) = it {
                        let p = numbat::verif::quantity_parts(q);
                        raw.push(json!({"v": format!("{:e}", p.value), "u": unit_text(&p.unit)}));
                        if i < ch.units.len() && unit_text(&p.unit) != ch.units[i] { units_ok = false; }
                        let v = if i + 1 == items.len() { p.value * scale } else { p.value };
                        if v.fract() == 0.0 && v.abs() < 2147483648.0 { parts.push(v as i64); } else { exact = false; }
                    } else {
                        exact = false;
                        units_ok = false;
                    }
                }
            }
            if !exact { parts.clear(); }
            ev["exact"] = json!(exact);
            ev["units_ok"] = json!(units_ok);
            ev["parts"] = json!(parts);
            ev["raw"] = json!(raw);
            if r.outcome != "ok" { ev["msg"] = json!(r.message.chars().take(200).collect::<String>()); }
            ev
        }).collect()
    });
    let mut out = Out::new(arg(args, "--out"));
    for r in results.iter().flatten() { out.line(r); }
    out.flush();
    0
}

fn main() {
    nvh::main_dispatch(&[("eval", eval), ("record", record)]);
}
