//! C14 (NumFormat.tla): displayed numbers read back as the value they show.
//!
//! numfmt-run    --cases <ndjson> --out <ndjson> [--trace <ndjson> --trace-every N] [--threads N]
//!     G direction: every TLC generated case {d: digits, e: exponent of the first digit, n: 0/1 negative,
//!     c: "fin"|"inf"|"nan", sep, thr, sig} is built as an f64 by the REAL pipeline (the literal is interpreted in a
//!     prelude-free Context), formatted by the REAL `Value::pretty_print_with(&FormatOptions)`, and the text is read
//!     back through the REAL tokenizer/parser (`numbat::verif::parse_sexpr` after removing the separator).
//! numfmt-record --seed S --events N --out <ndjson>
//!     J direction: seeded random f64 classes x random options, one Trace_NumFormat event per line.
//! numfmt-probe  <literal> <sep> <thr> <sig>     (manual probe, prints the observation)
use nvh::session::{new_context, run_input};
use nvh::util::*;
use numbat::value::Value;
use numbat::{Context, FormatOptions};
use serde_json::{json, Value as J};

#[derive(Clone, Debug)]
struct Opts {
    sep: String,
    thr: usize,
    sig: usize,
}

/// What was observed for one (value, options) pair on the real code.
#[derive(Debug, Default)]
struct Obs {
    setup_error: Option<String>, // the value could not be produced by the real pipeline
    x: f64,                      // the value the real pipeline computed
    text: String,                // what the real formatter displayed ("" if it panicked)
    panic: Option<String>,       // panic message of the formatter
    lex: bool,                   // text minus separator parses (real tokenizer + parser) ...
    shape: String,               // ... as "num" (literal/keyword), "neg" (unary minus literal) or "other"
    lex_err: String,
    rb: f64,                     // value of that literal according to the real parser
    lexeq: bool,                 // rb is bit-identical to Rust's correctly rounded parse of the same characters
    raw_ok: bool,                // (separator "_" only) the unstripped text is itself a literal of the same value
}

fn strip_sep(text: &str, sep: &str) -> String {
    if sep.is_empty() { text.to_string() } else { text.replace(sep, "") }
}

/// Rust's own (correctly rounded) reading of the characters of a displayed number
fn rust_value(s: &str) -> Option<f64> {
    let (neg, body) = match s.strip_prefix('-') {
        Some(b) => (true, b),
        None => (false, s),
    };
    let v = match body {
        "inf" => f64::INFINITY,
        "NaN" => f64::NAN,
        _ => {
            if body.is_empty() || !body.bytes().all(|b| b.is_ascii_digit() || b == b'.' || b == b'e' || b == b'E' || b == b'+' || b == b'-') {
                return None;
            }
            body.parse::<f64>().ok()?
        }
    };
    Some(if neg { -v } else { v })
}

fn same_value_bits(a: f64, b: f64) -> bool {
    (a.is_nan() && b.is_nan()) || a.to_bits() == b.to_bits() || (a == 0.0 && b == 0.0)
}

/// parse "(num X)" / "(neg (num X))" as produced by the parse_sexpr hook
fn literal_of_sexpr(s: &str) -> Option<(&'static str, f64)> {
    fn num(s: &str) -> Option<f64> {
        let inner = s.strip_prefix("(num ")?.strip_suffix(')')?;
        if inner.contains('(') || inner.contains(' ') {
            return None;
        }
        inner.parse::<f64>().ok()
    }
    if let Some(v) = num(s) {
        return Some(("num", v));
    }
    let inner = s.strip_prefix("(neg ")?.strip_suffix(')')?;
    num(inner).map(|v| ("neg", -v))
}

fn read_back(text: &str, sep: &str, o: &mut Obs) {
    let stripped = strip_sep(text, sep);
    match numbat::verif::parse_sexpr(&stripped) {
        Ok(stmts) if stmts.len() == 1 => match literal_of_sexpr(&stmts[0]) {
            Some((shape, v)) => {
                o.lex = true;
                o.shape = shape.to_string();
                o.rb = v;
            }
            None => {
                o.lex = false;
                o.shape = "other".into();
                o.lex_err = format!("not a numeric literal: {}", stmts[0]);
            }
        },
        Ok(stmts) => {
            o.lex = false;
            o.shape = "other".into();
            o.lex_err = format!("{} statements", stmts.len());
        }
        Err(errs) => {
            o.lex = false;
            o.shape = "other".into();
            o.lex_err = errs.join("; ");
        }
    }
    o.lexeq = o.lex && rust_value(&stripped).map(|r| same_value_bits(r, o.rb)).unwrap_or(false);
    o.raw_ok = true;
    if sep == "_" && o.lex {
        o.raw_ok = match numbat::verif::parse_sexpr(text) {
            Ok(stmts) if stmts.len() == 1 => literal_of_sexpr(&stmts[0]).map(|(_, v)| same_value_bits(v, o.rb)).unwrap_or(false),
            _ => false,
        };
    }
}

/// the numbat source text that denotes a given f64 exactly (shortest round-trip digits, e-notation)
fn literal_for(x: f64) -> String {
    if x.is_nan() {
        "NaN".into()
    } else if x.is_infinite() {
        if x > 0.0 { "inf".into() } else { "-inf".into() }
    } else if x.is_sign_negative() {
        format!("-{:e}", -x)
    } else {
        format!("{:e}", x)
    }
}

fn value_of(ctx: &mut Context, lit: &str) -> Result<(Value, f64), String> {
    let r = run_input(ctx, lit);
    if r.outcome != "ok" {
        return Err(format!("{}: {} {}", lit, r.outcome, r.message));
    }
    let v = r.value.ok_or_else(|| format!("{lit}: no value"))?;
    let f = match &v {
        Value::Quantity(_) => v.clone().unsafe_as_quantity().unsafe_value().to_f64(),
        other => return Err(format!("{lit}: not a quantity: {other:?}")),
    };
    Ok((v, f))
}

fn observe(ctx: &mut Context, lit: &str, opts: &Opts) -> Obs {
    let mut o = Obs::default();
    let (v, f) = match value_of(ctx, lit) {
        Ok(x) => x,
        Err(e) => {
            o.setup_error = Some(e);
            return o;
        }
    };
    o.x = f;
    let fo = FormatOptions {
        digit_separator: opts.sep.clone(),
        digit_grouping_threshold: opts.thr,
        significant_digits: opts.sig,
        ..FormatOptions::default()
    };
    match std::panic::catch_unwind(std::panic::AssertUnwindSafe(|| v.pretty_print_with(&fo).to_string())) {
        Ok(t) => o.text = t,
        Err(p) => {
            o.panic = Some(p.downcast_ref::<String>().cloned().or_else(|| p.downcast_ref::<&str>().map(|s| s.to_string())).unwrap_or_else(|| "panic".into()));
            return o;
        }
    }
    let text = o.text.clone();
    read_back(&text, &opts.sep, &mut o);
    o
}

/// (class, negative, shortest round-trip digits, exponent of the first digit) of an f64 via Rust `{:e}`
fn decimal_parts(x: f64) -> (&'static str, bool, Vec<u8>, i32) {
    if x.is_nan() {
        return ("nan", false, vec![0], 0);
    }
    if x.is_infinite() {
        return ("inf", x < 0.0, vec![0], 0);
    }
    let s = format!("{:e}", x.abs());
    let (m, e) = s.split_once('e').unwrap();
    let ds: Vec<u8> = m.bytes().filter(|b| b.is_ascii_digit()).map(|b| b - b'0').collect();
    ("fin", x.is_sign_negative(), ds, e.parse().unwrap())
}

/// The other shortest representation of an f64 that lies EXACTLY half-way between two decimals of the shortest
/// length (both round-trip, both are equally close: Rust's `{:e}` and ryu pick different ones).  Exact decimal
/// expansion of the f64 via `{:.800e}` (Rust formats exactly at any precision).
fn alt_shortest(x: f64) -> Vec<J> {
    let (cls, _, ds, e) = decimal_parts(x);
    let mut out = vec![];
    if cls != "fin" || x == 0.0 {
        return out;
    }
    let k = ds.len();
    let exact = format!("{:.800e}", x.abs());
    let (m, e2) = exact.split_once('e').unwrap();
    if e2.parse::<i32>().unwrap() != e {
        return out;
    }
    let ex: Vec<u8> = m.bytes().filter(|b| b.is_ascii_digit()).map(|b| b - b'0').collect();
    let last = ex.iter().rposition(|d| *d != 0).unwrap_or(0);
    // exact value = (first k digits) 5 000...: a tie between `down` and `down + 1` at k digits
    if last != k || ex[k] != 5 {
        return out;
    }
    let down: u128 = ex[..k].iter().fold(0u128, |a, d| a * 10 + *d as u128);
    let mine: u128 = ds.iter().fold(0u128, |a, d| a * 10 + *d as u128);
    let other = if mine == down { down + 1 } else if mine == down + 1 { down } else { return out };
    let os = other.to_string();
    if os.len() != k || other % 10 == 0 {
        return out;
    }
    let lit = format!("{}e{}", os, e - (k as i32 - 1));
    if lit.parse::<f64>().map(|v| v.to_bits() == x.abs().to_bits()).unwrap_or(false) {
        out.push(json!({"ds": os.bytes().map(|b| b - b'0').collect::<Vec<u8>>(), "e": e}));
    }
    out
}

fn chars(s: &str) -> Vec<String> {
    s.chars().map(|c| c.to_string()).collect()
}

/// one Trace_NumFormat event
fn event(o: &Obs, opts: &Opts) -> J {
    let (cls, neg, ds, e) = decimal_parts(o.x);
    let (rcls, rneg, rds, re) = if o.lex { decimal_parts(o.rb) } else { ("fin", false, vec![0], 0) };
    json!({"cls": cls, "neg": neg, "ds": ds, "e": e, "alts": alt_shortest(o.x),
           "sep": chars(&opts.sep), "thr": opts.thr.min(1_000_000), "sig": opts.sig.min(1_000_000),
           "text": chars(&o.text), "panic": o.panic.is_some(),
           "lex": o.lex, "lexeq": o.lexeq, "rawok": o.raw_ok,
           "rcls": rcls, "rneg": rneg, "rds": rds, "re": re})
}

fn case_literal(c: &J) -> String {
    let neg = c["n"].as_i64().unwrap_or(0) != 0;
    let body = match c["c"].as_str().unwrap_or("fin") {
        "nan" => "NaN".to_string(),
        "inf" => "inf".to_string(),
        _ => {
            let d = c["d"].as_str().unwrap();
            let e = c["e"].as_i64().unwrap();
            if d.len() == 1 { format!("{d}e{e}") } else { format!("{}.{}e{}", &d[..1], &d[1..], e) }
        }
    };
    if neg { format!("-{body}") } else { body }
}

fn run(args: &[String]) -> i32 {
    let cases = read_ndjson(arg(args, "--cases").expect("--cases"));
    let threads = arg_u64(args, "--threads", 8) as usize;
    let every = arg_u64(args, "--trace-every", 0) as usize;
    let idx: Vec<usize> = (0..cases.len()).collect();
    let chunks: Vec<&[usize]> = idx.chunks(512).collect();
    let results: Vec<Vec<(J, Option<J>)>> = par_map(&chunks, threads, |chunk| {
        let mut ctx = new_context(&[], false);
        chunk.iter().map(|&i| {
            let c = &cases[i];
            let opts = Opts {
                sep: c["sep"].as_str().unwrap().to_string(),
                thr: c["thr"].as_u64().unwrap() as usize,
                sig: c["sig"].as_u64().unwrap() as usize,
            };
            let lit = case_literal(c);
            let o = observe(&mut ctx, &lit, &opts);
            if let Some(e) = &o.setup_error {
                return (json!({"i": i, "setup_error": e}), None);
            }
            let (cls, neg, ds, e) = decimal_parts(o.x);
            let shortest: String = ds.iter().map(|d| (b'0' + d) as char).collect();
            // is the value the pipeline computed exactly the decimal the case names?
            let exact = match c["c"].as_str().unwrap_or("fin") {
                "fin" => cls == "fin" && Some(shortest.as_str()) == c["d"].as_str() && Some(e as i64) == c["e"].as_i64()
                    && (neg == (c["n"].as_i64().unwrap_or(0) != 0) || shortest == "0"),
                k => cls == k && neg == (c["n"].as_i64().unwrap_or(0) != 0),
            };
            let res = json!({"i": i, "lit": lit, "exact": exact, "x": literal_for(o.x), "text": o.text,
                             "panic": o.panic, "lex": o.lex, "shape": o.shape, "lex_err": o.lex_err,
                             "rb": literal_for(o.rb), "lexeq": o.lexeq, "rawok": o.raw_ok});
            let ev = if !exact || (every > 0 && i % every == 0) { Some(event(&o, &opts)) } else { None };
            (res, ev)
        }).collect()
    });
    let mut out = Out::new(arg(args, "--out"));
    let mut tr = arg(args, "--trace").map(|p| Out::new(Some(p)));
    for (r, ev) in results.iter().flatten() {
        out.line(r);
        if let (Some(t), Some(ev)) = (tr.as_mut(), ev) {
            let mut ev = ev.clone();
            ev["case"] = r["i"].clone();
            ev["exact"] = r["exact"].clone();
            ev["lit"] = r["lit"].clone();
            t.line(&ev);
        }
    }
    out.flush();
    if let Some(t) = tr.as_mut() {
        t.flush();
    }
    0
}

// ------------------------------------------------------------------------------------------------
// J: random f64 classes

fn pow10(k: i32) -> f64 {
    format!("1e{k}").parse().unwrap()
}

fn next_up(x: f64, steps: i64) -> f64 {
    // walk `steps` representable numbers away from a positive finite x
    f64::from_bits((x.to_bits() as i64 + steps) as u64)
}

fn random_value(rng: &mut Rng) -> (f64, &'static str) {
    let class = rng.below(14);
    let (mut v, name): (f64, &'static str) = match class {
        0 | 1 => (f64::from_bits(rng.next()), "bits"),
        2 => {
            // subnormals (also with very few significant bits)
            let m = if rng.chance(1, 2) { rng.next() & ((1u64 << 52) - 1) } else { rng.next() & ((1u64 << (1 + rng.below(20))) - 1) };
            (f64::from_bits(m), "subnormal")
        }
        3 => (f64::from_bits(((2046 - rng.below(8)) << 52) | (rng.next() & ((1u64 << 52) - 1))), "huge"),
        4 => {
            // integers around 10^k
            let k = rng.below(23) as i32;
            let d = rng.below(7) as f64 - 3.0;
            (pow10(k) + d, "int10k")
        }
        5 => {
            // integers and halves around 2^52 .. 2^54
            let base = [52, 53, 54][rng.below(3) as usize];
            let p = 2f64.powi(base);
            (next_up(p, rng.below(9) as i64 - 4), "pow2")
        }
        6 => {
            let bits = 1 + rng.below(62);
            ((rng.next() >> (64 - bits)) as f64, "integer")
        }
        7 | 8 => {
            // decimal with few digits and a wide exponent range
            let len = 1 + rng.below(17);
            let mut s = String::new();
            for i in 0..len {
                let d = if i == 0 { 1 + rng.below(9) } else { rng.below(10) };
                s.push((b'0' + d as u8) as char);
                if i == 0 { s.push('.'); }
            }
            let e = if rng.chance(2, 3) { rng.below(40) as i64 - 15 } else { rng.below(640) as i64 - 330 };
            (format!("{s}e{e}").parse().unwrap(), "decimal")
        }
        9 => {
            // just around the notation switch points and the powers of ten in between
            let k = [-7, -6, -5, -1, 0, 1, 5, 6, 7, 15, 16][rng.below(11) as usize];
            (next_up(pow10(k), rng.below(9) as i64 - 4), "switch")
        }
        10 => {
            // 9...95 / 9...949 / 9...951 x 10^k: rounding carries across the switch points
            let nines = 1 + rng.below(16) as usize;
            let tail = ["5", "49", "51", "4", "6"][rng.below(5) as usize];
            let k = rng.below(30) as i64 - 12;
            (format!("9.{}{}e{}", "9".repeat(nines - 1), tail, k).parse().unwrap(), "nines")
        }
        11 => {
            // exactly representable decimal ties: integer + 1/2, 1/4, 1/8
            let i = (rng.next() >> (64 - (1 + rng.below(40)))) as f64;
            (i + [0.5, 0.25, 0.125, 0.75][rng.below(4) as usize], "tie")
        }
        12 => {
            // powers of two
            (2f64.powi(rng.below(2100) as i32 - 1074), "pow2any")
        }
        _ => ([0.0, f64::INFINITY, f64::NAN, 1.0, f64::MAX, f64::MIN_POSITIVE, 5e-324][rng.below(7) as usize], "special"),
    };
    if rng.chance(1, 2) && !v.is_nan() {
        v = -v;
    }
    (v, name)
}

fn random_opts(rng: &mut Rng) -> Opts {
    let sep = ["_", "_", ",", "", " ", "'", "~~"][rng.below(7) as usize].to_string();
    let thr = if rng.chance(1, 12) { 1000 } else { rng.below(21) as usize };
    let sig = if rng.chance(1, 10) { 21 + rng.below(235) as usize } else { 1 + rng.below(20) as usize };
    Opts { sep, thr, sig }
}

fn record(args: &[String]) -> i32 {
    let seed = arg_u64(args, "--seed", 1);
    let n = arg_u64(args, "--events", 1000);
    let mut rng = Rng::new(seed);
    let mut out = Out::new(arg(args, "--out"));
    let mut ctx = new_context(&[], false);
    let mut setup_mismatch = 0u64;
    let mut k = 0u64;
    while k < n {
        if k % 512 == 0 {
            ctx = new_context(&[], false);
        }
        let (v, class) = random_value(&mut rng);
        let opts = random_opts(&mut rng);
        let lit = literal_for(v);
        let o = observe(&mut ctx, &lit, &opts);
        if let Some(e) = &o.setup_error {
            eprintln!("setup error: {e}");
            return 2;
        }
        if !same_value_bits(o.x, v) {
            // the real pipeline did not compute the intended value from its shortest literal: the trace
            // is about the value it did compute; count it (literal reading is C10/C09 business)
            setup_mismatch += 1;
        }
        let mut ev = event(&o, &opts);
        ev["class"] = json!(class);
        ev["lit"] = json!(lit);
        out.line(&ev);
        k += 1;
    }
    out.flush();
    eprintln!("{}", json!({"events": n, "setup_mismatch": setup_mismatch}));
    0
}

fn probe(args: &[String]) -> i32 {
    let opts = Opts {
        sep: args.get(1).cloned().unwrap_or_else(|| "_".into()),
        thr: args.get(2).map(|s| s.parse().unwrap()).unwrap_or(6),
        sig: args.get(3).map(|s| s.parse().unwrap()).unwrap_or(6),
    };
    let mut ctx = new_context(&[], false);
    let o = observe(&mut ctx, &args[0], &opts);
    println!("{o:?}");
    println!("{}", event(&o, &opts));
    0
}

fn main() {
    nvh::main_dispatch(&[("numfmt-run", run), ("numfmt-record", record), ("numfmt-probe", probe)]);
}
