//! C09: runs generated programs (definitions + final expression) on a prelude-loaded Context and returns
//! the final value structurally (numbers, booleans, strings, lists, structs with field names, function references).
use nvh::session::*;
use nvh::util::*;
use numbat::value::{FunctionReference, Value};
use numbat::Context;
use serde_json::{json, Value as J};
use std::collections::HashMap;
use std::sync::Mutex;

fn value_json(v: &Value) -> J {
    match v {
        Value::Quantity(q) => {
            let p = numbat::verif::quantity_parts(q);
            if p.unit.is_empty() && p.value.fract() == 0.0 && p.value.abs() < 1e15 {
                json!({"k": "int", "v": p.value as i64})
            } else {
                json!({"k": "quantity", "v": q.to_string()})
            }
        }
        Value::Boolean(b) => json!({"k": "bool", "v": b}),
        Value::String(s) => json!({"k": "str", "v": s.to_string()}),
        Value::List(l) => json!({"k": "list", "v": l.iter().map(value_json).collect::<Vec<_>>()}),
        Value::StructInstance(info, fields) => {
            let names: Vec<String> = info.fields.keys().map(|k| k.to_string()).collect();
            json!({"k": "struct", "n": info.name.to_string(),
                   "v": names.iter().zip(fields.iter()).map(|(n, v)| json!({"f": n, "val": value_json(v)})).collect::<Vec<_>>()})
        }
        Value::FunctionReference(FunctionReference::Normal(n)) => json!({"k": "fn", "n": n.to_string()}),
        Value::FunctionReference(r) => json!({"k": "fn", "n": r.to_string()}),
        other => json!({"k": "other", "v": other.to_string()}),
    }
}

/// eval-run --cases f --out f : case {id, stmts:[text...]}; all statements but the last are the set-up (cached per
/// distinct set-up), the last one is evaluated on a clone
fn run(args: &[String]) -> i32 {
    let cases = read_ndjson(arg(args, "--cases").expect("--cases"));
    let threads = arg_u64(args, "--threads", 16) as usize;
    let mut base = new_context(&[], true);
    let r = run_input(&mut base, "use prelude");
    if r.outcome != "ok" { eprintln!("prelude: {}", r.message); return 2; }
    let cache: Mutex<HashMap<String, Result<Context, String>>> = Mutex::new(HashMap::new());
    let results: Vec<J> = par_map(&cases, threads, |c| {
        let stmts: Vec<&str> = c["stmts"].as_array().unwrap().iter().map(|s| s.as_str().unwrap()).collect();
        let (setup, last) = stmts.split_at(stmts.len() - 1);
        let key = setup.join("\n");
        let cached = { cache.lock().unwrap().get(&key).cloned() };
        let ctx0 = match cached {
            Some(c) => c,
            None => {
                let mut ctx = base.clone();
                let mut res = Ok(());
                for s in setup {
                    let r = run_input(&mut ctx, s);
                    if r.outcome != "ok" { res = Err(format!("set-up statement `{s}` failed: {} {}", r.outcome, r.message)); break; }
                }
                let entry = res.map(|_| ctx);
                cache.lock().unwrap().insert(key.clone(), entry.clone());
                entry
            }
        };
        match ctx0 {
            Err(e) => json!({"id": c["id"], "setup_error": e}),
            Ok(ctx0) => {
                let mut ctx = ctx0.clone();
                let r = run_input(&mut ctx, last[0]);
                json!({"id": c["id"], "outcome": r.outcome, "kind": r.kind, "msg": r.message, "out": r.out,
                       "value": r.value.as_ref().map(value_json)})
            }
        }
    });
    let mut out = Out::new(arg(args, "--out"));
    for r in &results { out.line(r); }
    out.flush();
    0
}

fn main() {
    nvh::main_dispatch(&[("eval-run", run)]);
}
