//! C01 / C02 / C16: executes generated programs on a prelude-loaded Context and reports, per statement,
//! the outcome, the checker's static type of the defined variable (hook global_type), the raw
//! run-time value's dimension computed from its unit factors and the unit table (hooks global_raw,
//! unit_table), and whether a rejected input printed or defined anything.
use nvh::session::*;
use nvh::util::*;
use numbat::value::Value;
use numbat::Context;
use serde_json::{json, Value as J};
use std::collections::{BTreeMap, HashMap};

type DimMap = HashMap<String, Vec<(String, i128, i128)>>;

fn gcd(a: i128, b: i128) -> i128 { if b == 0 { a.abs() } else { gcd(b, a % b) } }
fn radd(a: (i128, i128), b: (i128, i128)) -> (i128, i128) {
    let n = a.0 * b.1 + b.0 * a.1;
    let d = a.1 * b.1;
    let g = gcd(n, d).max(1);
    (n / g, d / g)
}
fn rmul(a: (i128, i128), b: (i128, i128)) -> (i128, i128) {
    let n = a.0 * b.0;
    let d = a.1 * b.1;
    let g = gcd(n, d).max(1);
    let (n, d) = (n / g, d / g);
    if d < 0 { (-n, -d) } else { (n, d) }
}

/// dimension vector of a quantity from its unit factors: Σ exponent × dimension(unit)
fn quantity_dim(q: &numbat::verif::QuantityParts, dims: &DimMap) -> J {
    let mut acc: BTreeMap<String, (i128, i128)> = BTreeMap::new();
    for (name, _canon, _pk, _pe, n, d) in &q.unit {
        match dims.get(name) {
            Some(ud) => {
                for (b, bn, bd) in ud {
                    let e = rmul((*n, *d), (*bn, *bd));
                    let cur = acc.get(b).copied().unwrap_or((0, 1));
                    acc.insert(b.clone(), radd(cur, e));
                }
            }
            None => { acc.insert(format!("?unit:{name}"), (1, 1)); }
        }
    }
    let m: serde_json::Map<String, J> = acc.into_iter().filter(|(_, e)| e.0 != 0).map(|(k, e)| (k, json!([e.0.to_string(), e.1.to_string()]))).collect();
    J::Object(m)
}

fn value_dims(v: &Value, dims: &DimMap) -> J {
    match v {
        Value::Quantity(q) => {
            let p = numbat::verif::quantity_parts(q);
            json!({"k": "q", "dim": quantity_dim(&p, dims), "value": format!("{:e}", p.value),
                   "unit": p.unit.iter().map(|f| json!([f.0, f.2, f.3, f.4.to_string(), f.5.to_string()])).collect::<Vec<_>>()})
        }
        Value::Boolean(b) => json!({"k": "bool", "value": b}),
        Value::String(s) => json!({"k": "str", "value": s.to_string()}),
        Value::List(l) => json!({"k": "list", "elems": l.iter().map(|e| value_dims(e, dims)).collect::<Vec<_>>()}),
        Value::StructInstance(info, fields) => {
            let names: Vec<String> = info.fields.keys().map(|k| k.to_string()).collect();
            json!({"k": "struct", "name": info.name.to_string(),
                   "fields": names.iter().zip(fields.iter()).map(|(n, v)| json!([n, value_dims(v, dims)])).collect::<Vec<_>>()})
        }
        Value::FunctionReference(r) => json!({"k": "fn", "value": r.to_string()}),
        Value::DateTime(_) => json!({"k": "datetime"}),
        Value::FormatSpecifiers(_) => json!({"k": "fmt"}),
    }
}

fn static_type(ctx: &Context, name: &str) -> J {
    match numbat::verif::global_type(ctx, name) {
        None => J::Null,
        Some(Ok(v)) => {
            let m: serde_json::Map<String, J> = v.into_iter().map(|(b, n, d)| (b, json!([n.to_string(), d.to_string()]))).collect();
            json!({"k": "dim", "dim": m})
        }
        Some(Err(s)) => json!({"k": "other", "text": s}),
    }
}

fn run_stmt(ctx: &mut Context, code: &str, var: &str, dims: &DimMap) -> J {
    let r = run_input(ctx, code);
    let mut o = json!({"outcome": r.outcome, "kind": r.kind, "msg": r.message, "echo": r.echo});
    if r.outcome == "ok" {
        o["static"] = static_type(ctx, var);
        o["raw"] = match numbat::verif::global_raw(ctx, var) { Some(v) => value_dims(&v, dims), None => J::Null };
    }
    o
}

/// typing-run --cases f --out f   (first line of cases: {"setup":[...]}; then {id, s1, s2})
fn run(args: &[String]) -> i32 {
    let cases = read_ndjson(arg(args, "--cases").expect("--cases"));
    let threads = arg_u64(args, "--threads", 16) as usize;
    let mut base = new_context(&[], true);
    let r = run_input(&mut base, "use prelude");
    if r.outcome != "ok" { eprintln!("prelude: {}", r.message); return 2; }
    for s in cases[0]["setup"].as_array().unwrap() {
        let r = run_input(&mut base, s.as_str().unwrap());
        // the specification predicts that every catalogue definition is accepted: a rejection is an observation
        if r.outcome != "ok" { eprintln!("SETUP-REJECTED {}", serde_json::json!({"statement": s, "outcome": r.outcome, "kind": r.kind, "msg": r.message})); return 3; }
    }
    let dims: DimMap = numbat::verif::unit_table(&base).into_iter().map(|e| (e.name.clone(), e.dimension.clone())).collect();
    let results: Vec<J> = par_map(&cases[1..], threads, |c| {
        let mut ctx = base.clone();
        let s1 = c["s1"].as_str().unwrap();
        let s2 = c["s2"].as_str().unwrap_or("");
        let r1 = run_stmt(&mut ctx, s1, "v_a", &dims);
        let mut out = json!({"id": c["id"], "r1": r1});
        if out["r1"]["outcome"] == "ok" && !s2.is_empty() {
            out["r2"] = run_stmt(&mut ctx, s2, "v_b", &dims);
        }
        // a rejected input is rejected as a whole: nothing printed, nothing defined
        let failing = if out["r1"]["outcome"] != "ok" { Some(s1) } else if !s2.is_empty() && out["r2"]["outcome"] != "ok" { Some(s2) } else { None };
        if let Some(f) = failing {
            let code = format!("print(\"v_mark\")\nlet v_mark = 1\n{f}");
            let r = run_input(&mut ctx, &code);
            let defined = ctx.variable_names().any(|n| n == "v_mark");
            out["reject"] = json!({"outcome": r.outcome, "printed": r.out, "defined": defined});
        }
        out
    });
    let mut out = Out::new(arg(args, "--out"));
    // first line: the dimension names of the session with their base representation (to read printed types back)
    let dimtable: serde_json::Map<String, J> = base.dimension_names().iter().filter_map(|n| {
        numbat::verif::dimension_base_repr(&base, n).map(|v| (n.to_string(), J::Array(v.into_iter().map(|(b, n, d)| json!([b, n.to_string(), d.to_string()])).collect())))
    }).collect();
    out.line(&json!({"dimension_names": dimtable}));
    for r in &results { out.line(r); }
    out.flush();
    0
}

/// infer-run --cases f --out f   (first line: {"args":[texts]}; then {id, body, two})
/// session A: unannotated definition; session B: the definition as the checker printed it (inferred
/// signature as annotations); the same calls in both.
fn run_infer(args: &[String]) -> i32 {
    let cases = read_ndjson(arg(args, "--cases").expect("--cases"));
    let threads = arg_u64(args, "--threads", 16) as usize;
    let maxargs = arg_u64(args, "--maxargs", 8) as usize;
    let mut base = new_context(&[], true);
    let r = run_input(&mut base, "use prelude");
    if r.outcome != "ok" { eprintln!("prelude: {}", r.message); return 2; }
    for s in cases[0]["setup"].as_array().map(|a| a.to_vec()).unwrap_or_default() {
        let r = run_input(&mut base, s.as_str().unwrap());
        // the specification predicts that every catalogue definition is accepted: a rejection is an observation
        if r.outcome != "ok" { eprintln!("SETUP-REJECTED {}", serde_json::json!({"statement": s, "outcome": r.outcome, "kind": r.kind, "msg": r.message})); return 3; }
    }
    let argtexts: Vec<String> = cases[0]["args"].as_array().unwrap().iter().map(|a| a.as_str().unwrap().to_string()).collect();
    let dims: DimMap = numbat::verif::unit_table(&base).into_iter().map(|e| (e.name.clone(), e.dimension.clone())).collect();
    let results: Vec<J> = par_map(&cases[1..], threads, |c| {
        let body = c["body"].as_str().unwrap();
        let two = c["two"].as_bool().unwrap();
        let def = if two { format!("fn f_u(x, y) = {body}") } else { format!("fn f_u(x) = {body}") };
        let mut a = base.clone();
        let ra = run_input(&mut a, &def);
        let mut out = json!({"id": c["id"], "def": def, "a_outcome": ra.outcome, "a_kind": ra.kind, "a_msg": ra.message, "echo": ra.echo});
        if ra.outcome != "ok" { return out; }
        let echo = ra.echo.join("\n");
        let mut b = base.clone();
        let mut rb = run_input(&mut b, &echo);
        out["b_outcome"] = json!(rb.outcome);
        out["b_msg"] = json!(rb.message);
        if rb.outcome != "ok" && echo.contains(" or ") {
            // the printed type lists alternative names of the same dimension ("Activity or Frequency"):
            // not valid syntax (reported); continue with the first alternative so that the calls are still compared
            let mut fixed = String::new();
            let mut rest = echo.as_str();
            while let Some(pos) = rest.find(" or ") {
                fixed.push_str(&rest[..pos]);
                let after = &rest[pos + 4..];
                let end = after.find(|c: char| !(c.is_alphanumeric() || c == '_')).unwrap_or(after.len());
                rest = &after[end..];
            }
            fixed.push_str(rest);
            b = base.clone();
            rb = run_input(&mut b, &fixed);
            out["b_retry_outcome"] = json!(rb.outcome);
            out["b_retry_text"] = json!(fixed);
        }
        let n = argtexts.len().min(maxargs);
        let mut calls = vec![];
        for i in 0..n {
            let mut row = vec![];
            for j in 0..(if two { n } else { 1 }) {
                let call = if two { format!("let v_r = f_u({}, {})", argtexts[i], argtexts[j]) } else { format!("let v_r = f_u({})", argtexts[i]) };
                let ca = run_stmt(&mut a, &call, "v_r", &dims);
                let cb = if rb.outcome == "ok" { run_stmt(&mut b, &call, "v_r", &dims) } else { J::Null };
                row.push(json!({"a": {"outcome": ca["outcome"], "static": ca["static"], "kind": ca["kind"]},
                                "b": if cb.is_null() { J::Null } else { json!({"outcome": cb["outcome"], "static": cb["static"], "kind": cb["kind"]}) }}));
            }
            calls.push(J::Array(row));
        }
        out["calls"] = J::Array(calls);
        out
    });
    let mut out = Out::new(arg(args, "--out"));
    for r in &results { out.line(r); }
    out.flush();
    0
}

fn main() {
    nvh::main_dispatch(&[("typing-run", run), ("infer-run", run_infer)]);
}
