//! Extra (beyond the listed properties): the REPL command layer, replayed from Commands.tla.
use nvh::session::*;
use nvh::util::*;
use numbat::command::{CommandControlFlow, CommandRunner};
use numbat::session_history::SessionHistory;
use serde_json::{json, Value as J};

/// run --cases f --out f --dir d : case {id, cfg:{print,clear,save,reset,quit}, words:[..]}
fn run(args: &[String]) -> i32 {
    let cases = read_ndjson(arg(args, "--cases").expect("--cases"));
    let dir = arg(args, "--dir").expect("--dir").to_string();
    let threads = arg_u64(args, "--threads", 16) as usize;
    let results: Vec<J> = par_map(&cases, threads, |c| {
        let cfg = &c["cfg"];
        let b = |k: &str| cfg[k].as_bool().unwrap_or(false);
        let printed = std::cell::RefCell::new(0usize);
        let mut runner: CommandRunner<()> = CommandRunner::new();
        if b("print") { runner = runner.print_with(|_m| { *printed.borrow_mut() += 1; }); }
        if b("clear") { runner = runner.enable_clear(|_| CommandControlFlow::Continue); }
        if b("save") { runner = runner.enable_save(SessionHistory::new()); }
        if b("reset") { runner = runner.enable_reset(); }
        if b("quit") { runner = runner.enable_quit(); }
        let mut ctx = new_context(&[], false);
        let words: Vec<String> = c["words"].as_array().unwrap().iter().map(|w| w.as_str().unwrap().to_string()).collect();
        // `save <x>` writes a file: make the destination land in the scratch directory
        let line = if words.first().map(|w| w == "save").unwrap_or(false) && words.len() == 2 {
            format!("save {dir}/{}_{}", c["id"], words[1])
        } else if words.first().map(|w| w == "save").unwrap_or(false) && words.len() == 1 && b("save") {
            // default destination history.nbt in the current directory: run from the scratch dir
            words.join("  ")
        } else {
            words.join("  ")
        };
        let res = std::panic::catch_unwind(std::panic::AssertUnwindSafe(|| runner.try_run_command(&line, &mut ctx, &mut ())));
        let cls = match res {
            Err(_) => "panic".to_string(),
            Ok(Ok(CommandControlFlow::Continue)) => "continue".into(),
            Ok(Ok(CommandControlFlow::Return)) => "return".into(),
            Ok(Ok(CommandControlFlow::Reset)) => "reset".into(),
            Ok(Ok(CommandControlFlow::NotACommand)) => "not-a-command".into(),
            Ok(Err(e)) => match *e {
                numbat::command::CommandError::Parse(_) => "error".into(),
                numbat::command::CommandError::Runtime(_) => "runtime-error".into(),
            },
        };
        drop(runner);
        json!({"id": c["id"], "cls": cls, "printed": *printed.borrow()})
    });
    let mut out = Out::new(arg(args, "--out"));
    for r in &results { out.line(r); }
    out.flush();
    0
}

fn main() {
    nvh::main_dispatch(&[("run", run)]);
}
