//! C08: no input crashes or hangs the interpreter (binding of spec/Totality.tla + spec/Overflow.tla).
//!
//!   run    --cases f --out f [--trace f] [--workers 14] [--timeout-ms 5000] [--stack-mb 8] [--mem-mb 3000]
//!          executes every case in a CHILD process (this binary with the `worker` sub-command; a pool of workers fed
//!          over stdin/stdout): a stack overflow, an abort or a hang kills the child, not the check.
//!            outcome  ok | resolver | nameres | type | runtime        (the outcomes Totality.tla allows)
//!                     panic            caught by catch_unwind; `st` = pipeline stage, `loc` = file:line, `m` = message
//!                     timeout          no answer within the wall-clock limit (child killed)
//!                     crash:<signal>[:stack-overflow|:oom]   the child died
//!          --trace: additionally one small ndjson event per case for spec/Trace_Totality.tla
//!   worker (internal) one JSON case per line on stdin, one JSON result per line on stdout
//!   gen    --seed n --n k --out f [--repo /repo]   J direction: the seeded random inputs (grammar-based programs, corpus
//!          mutations, extreme literals, random UTF-8, random bytes) as cases; same seed -> same inputs
//!
//! case:   {"text": s} or {"parts": [[s, n], ...]} (s repeated n times, concatenated), "sess": "fresh" | "prelude",
//!         "rep": k (the input is submitted k times to ONE context: long sessions), "tmo": ms (own time limit);
//!         every other field is copied to the result.
//! For every error outcome the diagnostic is rendered the way the CLI and the web front end do it (Display,
//! ErrorDiagnostic::diagnostics, codespan term::emit into a NoColor buffer and into numbat's HtmlWriter); for every
//! result the echo of the statements, the printed output and the result markup are formatted.  A panic or an error of
//! `emit` (both front ends unwrap it) there is outcome "panic" with the stage it happened in.
use codespan_reporting::term::{self, Config};
use numbat::diagnostic::{ErrorDiagnostic, ResolverDiagnostic};
use numbat::html_formatter::{HtmlFormatter, HtmlWriter};
use numbat::markup::{Formatter, Markup, PlainTextFormatter};
use numbat::pretty_print::PrettyPrint;
use numbat::resolver::CodeSource;
use numbat::{Context, InterpreterSettings, NumbatError};
use nvh::session::{classify, new_context};
use nvh::util::*;
use serde_json::{json, Value as J};
use std::cell::Cell;
use std::io::{BufRead, Write};
use std::sync::atomic::{AtomicUsize, Ordering};
use std::sync::{mpsc, Arc, Mutex};
use std::time::{Duration, Instant};

// ------------------------------------------------------------------------------------------------
// time: CPU time, not wall-clock time, so that verdicts do not depend on the load of the machine

/// CPU time consumed by the calling thread, in ms (Linux schedstat: ns on-CPU; the file is kept open, one pread per
/// reading); falls back to wall-clock time
struct CpuClock {
    f: Option<std::fs::File>,
    t0: Instant,
}
impl CpuClock {
    fn new() -> Self {
        CpuClock { f: std::fs::File::open("/proc/thread-self/schedstat").ok(), t0: Instant::now() }
    }
    fn ms(&self) -> f64 {
        use std::os::unix::fs::FileExt;
        if let Some(f) = &self.f {
            let mut buf = [0u8; 96];
            if let Ok(n) = f.read_at(&mut buf, 0) {
                if let Some(ns) = std::str::from_utf8(&buf[..n]).ok().and_then(|s| s.split_whitespace().next()).and_then(|x| x.parse::<f64>().ok()) {
                    return ns / 1e6;
                }
            }
        }
        self.t0.elapsed().as_secs_f64() * 1000.0
    }
}

/// CPU time (user + system) of process `pid` in ms, from /proc/<pid>/stat (10 ms ticks)
fn process_cpu_ms(pid: u32) -> Option<f64> {
    let s = std::fs::read_to_string(format!("/proc/{pid}/stat")).ok()?;
    let rest = &s[s.rfind(')')? + 1..];
    let f: Vec<&str> = rest.split_whitespace().collect();
    // after the command name: state is f[0], utime is field 14 of the line = f[11], stime f[12]
    let ut: f64 = f.get(11)?.parse().ok()?;
    let st: f64 = f.get(12)?.parse().ok()?;
    Some((ut + st) * 10.0)
}

// ------------------------------------------------------------------------------------------------
// worker

static LAST_PANIC: Mutex<Option<(String, String)>> = Mutex::new(None);

/// the innermost frames of the code under test on the panicking stack ("numbat::product::Product::power <- ..."):
/// the panic location alone is often inside a dependency (num-rational, pretty_dtoa)
fn numbat_frames() -> String {
    let bt = std::backtrace::Backtrace::force_capture().to_string();
    let mut out: Vec<String> = vec![];
    for line in bt.lines() {
        let l = line.trim();
        // "12: numbat::vm::Vm::run_without_cleanup" (frames), "at /path" (locations, skipped)
        let Some((_, name)) = l.split_once(": ") else { continue };
        if l.starts_with("at ") || !name.contains("numbat::") {
            continue;
        }
        // strip generic arguments, hashes and closure markers
        let mut n = name.replace("{{closure}}", "").replace("::::", "::");
        if let Some(i) = n.find("::h") {
            if n.len() - i == 19 { n.truncate(i); }
        }
        if let Some(i) = n.find('<') {
            if i == 0 {
                // "<numbat::x::T as core::ops::Mul>::mul"
                n = n.trim_start_matches('<').replace(" as ", " as ").to_string();
            }
        }
        let n = n.trim_end_matches("::").to_string();
        if out.last() != Some(&n) {
            out.push(n);
        }
        if out.len() >= 3 {
            break;
        }
    }
    out.join(" <- ")
}

fn short_path(p: &str) -> String {
    if let Some(i) = p.find("/repo/") {
        return p[i + 6..].to_string();
    }
    if let Some(i) = p.find("/registry/src/") {
        let rest = &p[i + 14..];
        return rest.split_once('/').map(|x| x.1.to_string()).unwrap_or_else(|| rest.to_string());
    }
    p.to_string()
}

fn install_hook() {
    std::panic::set_hook(Box::new(|info| {
        let loc = info.location().map(|l| format!("{}:{}", short_path(l.file()), l.line())).unwrap_or_default();
        let p = info.payload();
        let msg = p.downcast_ref::<String>().cloned().or_else(|| p.downcast_ref::<&str>().map(|s| s.to_string())).unwrap_or_default();
        let frames = numbat_frames();
        if let Ok(mut g) = LAST_PANIC.lock() {
            *g = Some((loc, format!("{msg}\u{1}{frames}")));
        }
    }));
}

fn expand(case: &J) -> String {
    if let Some(t) = case["text"].as_str() {
        return t.to_string();
    }
    let mut s = String::new();
    for p in case["parts"].as_array().map(|a| a.as_slice()).unwrap_or(&[]) {
        let piece = p[0].as_str().unwrap_or("");
        let n = p[1].as_u64().unwrap_or(1) as usize;
        s.reserve(piece.len() * n);
        for _ in 0..n {
            s.push_str(piece);
        }
    }
    s
}

struct Res {
    outcome: String,
    kind: String,
    stage: &'static str,
    msg: String,
    loc: String,
    class: String, // outcome class of the interpretation proper (before rendering)
    reps: u64,
    value: String, // the result as text (clipped)
}

fn clip(s: &str, n: usize) -> String {
    if s.len() <= n {
        return s.to_string();
    }
    let mut k = n;
    while !s.is_char_boundary(k) {
        k -= 1;
    }
    format!("{}…", &s[..k])
}

fn emit_all<W: termcolor::WriteColor>(w: &mut W, ctx: &Context, diags: &[numbat::Diagnostic]) -> Result<(), String> {
    let config = Config::default();
    for d in diags {
        term::emit(w, &config, &ctx.resolver().files, d).map_err(|e| format!("codespan emit failed: {e}"))?;
    }
    Ok(())
}

/// one submission of `text` to `ctx`, rendering included
fn submit(ctx: &mut Context, text: &str) -> Res {
    let stage: Cell<&'static str> = Cell::new("interpret");
    let class: Cell<&'static str> = Cell::new("");
    let printed: Arc<Mutex<Vec<Markup>>> = Arc::new(Mutex::new(vec![]));
    let printed2 = printed.clone();
    let mut settings = InterpreterSettings {
        print_fn: Box::new(move |m: &Markup| printed2.lock().unwrap().push(m.clone())),
    };
    *LAST_PANIC.lock().unwrap() = None;
    let value: Cell<Option<String>> = Cell::new(None);
    let r = std::panic::catch_unwind(std::panic::AssertUnwindSafe(|| -> Result<(String, String, String), String> {
        match ctx.interpret_with_settings(&mut settings, text, CodeSource::Text).map_err(|b| *b) {
            Ok((statements, result)) => {
                class.set("ok");
                stage.set("render-echo");
                for st in &statements {
                    let m = st.pretty_print();
                    let _ = PlainTextFormatter {}.format(&m, false);
                    let _ = HtmlFormatter {}.format(&m, true);
                }
                stage.set("render-print");
                for m in printed.lock().unwrap().iter() {
                    let _ = PlainTextFormatter {}.format(m, false);
                }
                stage.set("render-value");
                let rm = result.to_markup(statements.last(), ctx.dimension_registry(), true, true, &numbat::FormatOptions::default());
                let _ = PlainTextFormatter {}.format(&rm, false);
                let _ = HtmlFormatter {}.format(&rm, false);
                if let numbat::InterpreterResult::Value(v) = &result {
                    value.set(Some(clip(&v.to_string(), 120)));
                }
                Ok(("ok".into(), String::new(), String::new()))
            }
            Err(e) => {
                let (o, k) = classify(&e);
                class.set(match o.as_str() { "resolver" => "resolver", "nameres" => "nameres", "type" => "type", _ => "runtime" });
                stage.set("render-display");
                let msg = e.to_string();
                stage.set("render-diagnostics");
                let diags = match &e {
                    NumbatError::ResolverError(e) => e.diagnostics(),
                    NumbatError::NameResolutionError(e) => e.diagnostics(),
                    NumbatError::TypeCheckError(e) => e.diagnostics(),
                    NumbatError::RuntimeError(e) => ResolverDiagnostic { resolver: ctx.resolver(), error: e }.diagnostics(),
                };
                stage.set("render-term");
                let mut plain = termcolor::NoColor::new(Vec::<u8>::new());
                emit_all(&mut plain, ctx, &diags)?;
                stage.set("render-html");
                let mut html = HtmlWriter::new();
                emit_all(&mut html, ctx, &diags)?;
                let _ = numbat::buffered_writer::BufferedWriter::to_string(&html);
                Ok((o, k, msg))
            }
        }
    }));
    match r {
        Ok(Ok((outcome, kind, msg))) => Res { outcome, kind, stage: "done", msg: clip(&msg, 200), loc: String::new(), class: class.get().into(), reps: 1, value: value.take().unwrap_or_default() },
        Ok(Err(m)) => Res { outcome: "panic".into(), kind: "emit-error".into(), stage: stage.get(), msg: clip(&m, 300), loc: "codespan emit".into(), class: class.get().into(), reps: 1, value: String::new() },
        Err(_) => {
            let (loc, msg) = LAST_PANIC.lock().unwrap().take().unwrap_or_default();
            let (msg, frames) = msg.split_once('\u{1}').map(|(a, b)| (a.to_string(), b.to_string())).unwrap_or((msg.clone(), String::new()));
            Res { outcome: "panic".into(), kind: "panic".into(), stage: stage.get(), msg: clip(&msg, 300), loc, class: class.get().into(), reps: 1, value: clip(&frames, 300) }
        }
    }
}

fn prelude_context() -> Context {
    let mut ctx = new_context(&[], true);
    let _ = ctx.interpret("use prelude", CodeSource::Internal).expect("prelude");
    ctx
}

const REUSE_LIMIT: u32 = 100; // a reused context is replaced after this many inputs (bounds what failing inputs may leave behind)

fn worker_loop() {
    let stdin = std::io::stdin();
    let stdout = std::io::stdout();
    let mut base: Option<Context> = None;
    let mut fresh_base: Option<Context> = None;
    let mut cur: Option<(Context, u32)> = None;
    let clock = CpuClock::new();
    for line in stdin.lock().lines() {
        let line = match line { Ok(l) => l, Err(_) => break };
        if line.trim().is_empty() {
            continue;
        }
        let case: J = serde_json::from_str(&line).expect("case json");
        let text = expand(&case);
        let sess = case["sess"].as_str().unwrap_or("fresh").to_string();
        let rep = case["rep"].as_u64().unwrap_or(1).max(1);
        let t0 = Instant::now();
        let (mut ctx, used) = if sess == "prelude" {
            if base.is_none() {
                base = Some(prelude_context());
            }
            cur.take().unwrap_or_else(|| (base.as_ref().unwrap().clone(), 0))
        } else {
            if fresh_base.is_none() {
                fresh_base = Some(new_context(&[], true));
            }
            (fresh_base.as_ref().unwrap().clone(), 0)
        };
        let t1 = Instant::now();
        let c1 = clock.ms();
        let mut res = submit(&mut ctx, &text);
        let mut k = 1;
        while k < rep && res.outcome == "ok" {
            res = submit(&mut ctx, &text);
            k += 1;
        }
        res.reps = k;
        let wall_ms = t1.elapsed().as_secs_f64() * 1000.0;
        let ms = (clock.ms() - c1).max(0.0).min(wall_ms.max(0.01));
        let mut fresh_repro = J::Null;
        if res.outcome == "panic" && used > 0 {
            // the context had seen other (failing) inputs before: does a pristine copy of the session agree?
            let mut c2 = base.as_ref().unwrap().clone();
            let r2 = submit(&mut c2, &text);
            fresh_repro = J::Bool(r2.outcome == "panic" && r2.loc == res.loc);
        }
        // an input that failed leaves the session as it was (C06): keep the context; after a result, a panic or many
        // inputs take a new copy
        let is_err = matches!(res.outcome.as_str(), "resolver" | "nameres" | "type" | "runtime");
        if sess == "prelude" && is_err && used + 1 < REUSE_LIMIT {
            cur = Some((ctx, used + 1));
        } else if res.outcome == "panic" {
            // never touch a context again after a panic (not even to drop it: its invariants may be broken)
            std::mem::forget(ctx);
        }
        let mut o = json!({"o": res.outcome, "k": res.kind, "st": res.stage, "m": res.msg, "loc": res.loc, "cls": res.class,
                           "ms": (ms * 100.0).round() / 100.0, "wall_ms": wall_ms.round(), "setup_ms": ((t1 - t0).as_secs_f64() * 1000.0).round(), "len": text.len()});
        if case["val"].as_bool().unwrap_or(false) && res.outcome == "ok" {
            o["v"] = json!(res.value);
        }
        if res.outcome == "panic" {
            o["fr"] = json!(res.value);
        }
        if rep > 1 {
            o["reps"] = json!(res.reps);
        }
        if !fresh_repro.is_null() {
            o["fresh_repro"] = fresh_repro;
        }
        let mut out = stdout.lock();
        serde_json::to_writer(&mut out, &o).unwrap();
        out.write_all(b"\n").unwrap();
        out.flush().unwrap();
    }
}

fn worker(args: &[String]) -> i32 {
    install_hook();
    let stack = (arg_u64(args, "--stack-mb", 8) as usize) << 20;
    let h = std::thread::Builder::new().stack_size(stack).spawn(worker_loop).expect("spawn");
    let _ = h.join();
    0
}

// ------------------------------------------------------------------------------------------------
// pool

struct Child {
    proc: std::process::Child,
    stdin: std::process::ChildStdin,
    rx: mpsc::Receiver<String>,
    err: Arc<Mutex<String>>,
    err_reader: Option<std::thread::JoinHandle<()>>,
}

fn spawn_worker(stack_mb: u64, mem_mb: u64) -> Child {
    let exe = std::env::current_exe().expect("current_exe");
    let script = format!("ulimit -v {}; ulimit -c 0; exec \"$0\" worker --stack-mb {}", mem_mb * 1024, stack_mb);
    let mut proc = std::process::Command::new("sh")
        .arg("-c").arg(script).arg(exe)
        .stdin(std::process::Stdio::piped())
        .stdout(std::process::Stdio::piped())
        .stderr(std::process::Stdio::piped())
        .spawn().expect("spawn worker");
    let stdin = proc.stdin.take().unwrap();
    let stdout = proc.stdout.take().unwrap();
    let stderr = proc.stderr.take().unwrap();
    let (tx, rx) = mpsc::channel();
    std::thread::spawn(move || {
        for l in std::io::BufReader::new(stdout).lines() {
            match l {
                Ok(l) => { if tx.send(l).is_err() { break; } }
                Err(_) => break,
            }
        }
    });
    let err = Arc::new(Mutex::new(String::new()));
    let err2 = err.clone();
    let err_reader = std::thread::spawn(move || {
        for l in std::io::BufReader::new(stderr).split(b'\n') {
            match l {
                Ok(l) => {
                    let mut g = err2.lock().unwrap();
                    g.push_str(&String::from_utf8_lossy(&l));
                    g.push('\n');
                    if g.len() > 4000 {
                        let cut = g.len() - 2000;
                        let mut k = cut;
                        while !g.is_char_boundary(k) { k += 1; }
                        *g = g[k..].to_string();
                    }
                }
                Err(_) => break,
            }
        }
    });
    Child { proc, stdin, rx, err, err_reader: Some(err_reader) }
}

fn signal_name(s: i32) -> String {
    match s {
        4 => "SIGILL".into(), 6 => "SIGABRT".into(), 7 => "SIGBUS".into(), 8 => "SIGFPE".into(), 9 => "SIGKILL".into(),
        11 => "SIGSEGV".into(), 13 => "SIGPIPE".into(), 15 => "SIGTERM".into(), n => format!("SIG{n}"),
    }
}

fn crashed(child: &mut Child) -> (String, String) {
    use std::os::unix::process::ExitStatusExt;
    let st = child.proc.wait().ok();
    if let Some(h) = child.err_reader.take() {
        let _ = h.join(); // the child is gone: its stderr is at EOF, the reader ends
    }
    let err = child.err.lock().unwrap().clone();
    let mut o = match st.and_then(|s| s.signal()) {
        Some(s) => format!("crash:{}", signal_name(s)),
        None => format!("crash:exit{}", st.and_then(|s| s.code()).unwrap_or(-1)),
    };
    if err.contains("has overflowed its stack") || err.contains("stack overflow") {
        o.push_str(":stack-overflow");
    } else if err.contains("memory allocation of") {
        o.push_str(":oom");
    }
    (o, clip(err.trim(), 400))
}

fn run(args: &[String]) -> i32 {
    let cases = read_ndjson(arg(args, "--cases").expect("--cases"));
    let workers = arg_u64(args, "--workers", 14) as usize;
    let timeout_ms = arg_u64(args, "--timeout-ms", 5000);
    let stack_mb = arg_u64(args, "--stack-mb", 8);
    let mem_mb = arg_u64(args, "--mem-mb", 3000);
    let n = cases.len();
    let next = AtomicUsize::new(0);
    let results: Vec<Mutex<Option<J>>> = (0..n).map(|_| Mutex::new(None)).collect();
    let respawns = AtomicUsize::new(0);
    let batch = arg_u64(args, "--batch", 1).max(1) as usize;
    std::thread::scope(|s| {
        for _ in 0..workers.min(n.max(1)) {
            s.spawn(|| {
                let mut child = spawn_worker(stack_mb, mem_mb);
                let finish = |i: usize, mut r: J, t0: Instant| {
                    let case = &cases[i];
                    if r.get("ms").is_none() {
                        r["ms"] = json!((t0.elapsed().as_secs_f64() * 1000.0).round());
                    }
                    r["i"] = json!(i);
                    for (k, v) in case.as_object().unwrap() {
                        if k != "text" && k != "parts" && r.get(k).is_none() {
                            r[k] = v.clone();
                        }
                    }
                    *results[i].lock().unwrap() = Some(r);
                };
                loop {
                    let lo = next.fetch_add(batch, Ordering::SeqCst);
                    if lo >= n {
                        break;
                    }
                    let hi = (lo + batch).min(n);
                    let mut i = lo;
                    while i < hi {
                        // a sub-batch that fits into the pipe buffer (the child answers each case before it reads the next one)
                        let mut buf: Vec<u8> = vec![];
                        let mut j = i;
                        while j < hi {
                            let line = serde_json::to_string(&cases[j]).unwrap();
                            if j > i && buf.len() + line.len() + 1 > 30_000 {
                                break;
                            }
                            buf.extend_from_slice(line.as_bytes());
                            buf.push(b'\n');
                            j += 1;
                        }
                        let mut t0 = Instant::now();
                        let sent = child.stdin.write_all(&buf).and_then(|_| child.stdin.flush());
                        if sent.is_err() {
                            let (o, e) = crashed(&mut child);
                            child = spawn_worker(stack_mb, mem_mb);
                            respawns.fetch_add(1, Ordering::SeqCst);
                            finish(i, json!({"o": o, "k": "crash", "st": "interpret", "m": e, "loc": "", "cls": ""}), t0);
                            i += 1;
                            continue;
                        }
                        // answers, one per case, each under the watchdog: the child has used `tmo` ms of CPU time on this
                        // case (or 10 x that of wall-clock time, which also ends a child that sleeps or is blocked)
                        let pid = child.proc.id();
                        let mut k = i;
                        while k < j {
                            let tmo = cases[k]["tmo"].as_u64().unwrap_or(timeout_ms);
                            let cpu0 = process_cpu_ms(pid);
                            let answer = loop {
                                match child.rx.recv_timeout(Duration::from_millis(tmo.min(200))) {
                                    Err(mpsc::RecvTimeoutError::Timeout) => {
                                        let wall = t0.elapsed().as_millis() as u64;
                                        let cpu = match (cpu0, process_cpu_ms(pid)) { (Some(a), Some(b)) => (b - a) as u64, _ => wall };
                                        if cpu >= tmo || wall >= tmo * 10 {
                                            break Err(mpsc::RecvTimeoutError::Timeout);
                                        }
                                    }
                                    other => break other,
                                }
                            };
                            match answer {
                                Ok(l) => {
                                    let r = serde_json::from_str::<J>(&l).unwrap_or_else(|_| json!({"o": "crash:garbled", "k": "crash", "m": clip(&l, 200)}));
                                    finish(k, r, t0);
                                    t0 = Instant::now();
                                    k += 1;
                                }
                                Err(e) => {
                                    let r = if matches!(e, mpsc::RecvTimeoutError::Timeout) {
                                        let _ = child.proc.kill();
                                        let _ = child.proc.wait();
                                        json!({"o": "timeout", "k": "timeout", "st": "interpret", "m": format!("no answer within {tmo} ms of CPU time"), "loc": "", "cls": "", "ms": tmo + 1})
                                    } else {
                                        let (o, e) = crashed(&mut child);
                                        json!({"o": o, "k": "crash", "st": "interpret", "m": e, "loc": "", "cls": ""})
                                    };
                                    child = spawn_worker(stack_mb, mem_mb);
                                    respawns.fetch_add(1, Ordering::SeqCst);
                                    finish(k, r, t0);
                                    k += 1;
                                    break; // the rest of the sub-batch is sent again, to the new child
                                }
                            }
                        }
                        i = k;
                    }
                }
                drop(child.stdin);
                let _ = child.proc.wait();
            });
        }
    });
    let mut out = Out::new(arg(args, "--out"));
    let mut trace = arg(args, "--trace").map(|p| Out::new(Some(p)));
    let (mut bad, mut maxms) = (0u64, 0f64);
    for r in &results {
        let r = r.lock().unwrap().take().expect("result");
        let o = r["o"].as_str().unwrap_or("");
        if !matches!(o, "ok" | "resolver" | "nameres" | "type" | "runtime") {
            bad += 1;
        }
        let ms = r["ms"].as_f64().unwrap_or(0.0);
        if ms > maxms {
            maxms = ms;
        }
        if let Some(t) = trace.as_mut() {
            // what Trace_Totality judges: integers and strings only
            let head = o.split(':').next().unwrap_or("");
            t.line(&json!({"class": r["class"].as_str().unwrap_or("-"), "len": r["len"].as_u64().unwrap_or(0), "outcome": head,
                           "stage": r["st"].as_str().unwrap_or(""), "cls": r["cls"].as_str().unwrap_or(""),
                           "ms": ms.ceil() as u64, "limit": r["tmo"].as_u64().unwrap_or(timeout_ms)}));
        }
        out.line(&r);
    }
    out.line(&json!({"summary": true, "cases": n, "bad": bad, "respawns": respawns.load(Ordering::SeqCst), "max_ms": maxms,
                     "workers": workers, "timeout_ms": timeout_ms, "stack_mb": stack_mb}));
    out.flush();
    if let Some(t) = trace.as_mut() {
        t.flush();
    }
    0
}

// ------------------------------------------------------------------------------------------------
// J: the seeded random driver

struct Gen {
    rng: Rng,
    corpus: Vec<(String, String)>, // (path, text)
    frags: Vec<String>,            // tokens of the corpus (splice material)
}

const UNITS: &[&str] = &["m", "s", "kg", "km", "cm", "mm", "inch", "ft", "min", "h", "N", "J", "W", "Hz", "percent", "deg", "°C", "K", "mol", "bit", "byte", "EUR", "day"];
const LEN_UNITS: &[&str] = &["m", "km", "cm", "mm", "inch", "ft", "mile", "au", "µm", "parsec"];
const TIME_UNITS: &[&str] = &["s", "min", "h", "ms", "day", "year", "week", "µs"];
const SCALAR_FNS: &[&str] = &["sin", "cos", "tan", "asin", "acos", "atan", "sinh", "cosh", "tanh", "exp", "ln", "log10", "log2", "sqrt", "cbrt", "sqr", "abs", "round", "floor", "ceil", "trunc", "fract", "gamma", "is_nan", "is_infinite"];
const WILD: &[&str] = &["ans", "_", "true", "false", "inf", "NaN", "pi", "τ", "e", "unit_of(1 m)", "value_of(3 km)", "len([1, 2])", "head([1 m])", "tail([1])", "[]", "\"a\"", "str_length(\"ab\")",
    "mod(7, 3)", "atan2(1, 2)", "now()", "random()", "[1, 2] |> sum", "1 |> sin", "mean([1 m, 2 m])", "maximum([1, 2])", "type(1 m)", "chr(65)", "ord(\"a\")", "hex(255)", "range(1, 5)",
    "2 m -> [ft, inch]", "has_unit(1 m, m)", "quantity_cast(1, m)", "cons(1, [])", "str_slice(0, 1, \"ab\")", "datetime(\"2020-01-01\")", "1 m |> round_in(cm)", "assert(true)", "error(\"x\")", "?"];
/// inputs found by hand probes or reported by other checks: always part of the J inputs (class "seed")
const SEEDS: &[&str] = &[
    "((m/cm)^1e30)^1e30", "fn f(x) = x^(2^126) * x^(2^126)", "assert_eq(1 km, 1 m, 0 km)", "assert_eq(1 km, 1 m, 0 m)", "assert_eq(1, 2, 0)",
    "(if m == m then sqr else sqr)(2)", "(if cm == cm then sqr else sqr)(2)", "(if 1 m == 1 m then sin else cos)(2)", "(sqr)(2 m)",
    "unit zu = \"\"", "unit zu = [1]", "unit zu = true", "unit zu = sin", "!0^2", "!NaN^2", "sin(inf m)", "inf m -> sin", "exp(NaN s)",
    "1/0", "1 ÷ 0", "1 m ÷ 0 µm", "0/0", "inf - inf", "NaN == NaN", "0^0", "0^-1", "(-8)^(1/3)", "1e308 * 10", "-1e308 * 10", "2^1024", "2^-1075", "(1e308 m)^2", "(1e-308 m)^2",
    "1 m -> 0", "1 m -> inf", "1 m -> NaN m", "1 -> 1", "1 m -> 0 m", "mod(1, 0)", "mod(1 m, 0 m)", "gamma(-1)", "gamma(171.7)", "sqrt(-1)", "ln(0)", "ln(-1)", "asin(2)",
    "round_in(0 m, 1 m)", "floor_in(0 cm, 1 m)", "1 m |> round_in(0 cm)", "trunc_in(inf m, 1 m)", "unit_of(0)", "value_of(inf m)", "head([])", "tail([])", "[] ++ []", "element_at(5, [1])", "element_at(-1, [1])",
    "range(1, 0)", "range(0, 1e3) |> len", "sum([])", "mean([])", "maximum([])", "str_slice(5, 2, \"ab\")", "str_slice(0, 100, \"ab\")", "str_slice(1, 2, \"äöü\")", "chr(55296)", "chr(1114112)", "chr(-1)", "chr(0.5)", "ord(\"\")",
    "hex(0.5)", "hex(-1)", "hex(1e30)", "base(1, 5)", "base(37, 5)", "base(0, 5)", "bin(2^64)", "\"{1:>1000}\"", "\"{1:.100f}\"", "\"{1:>999999999999}\"", "\"{1:.999999999999f}\"", "\"{1e300:.50f}\"", "\"{1:x}\"", "\"{1 m:e}\"", "\"{-0:+}\"",
    "datetime(\"\")", "datetime(\"9999-12-31 23:59:59\") + 1e10 year", "datetime(\"0000-01-01\") - 1e10 year", "from_unixtime(1e300)", "from_unixtime(NaN)", "from_unixtime(-1e300)", "now() + inf s", "now() - now() -> NaN s", "format_datetime(\"%\", now())", "format_datetime(\"%Q%Z%5\", now())",
    "date(\"2020-02-30\")", "time(\"25:00\")", "calendar_add(now(), 1e30 year)", "now() -> tz(\"Nowhere/Land\")", "now() -> tz(\"\")", "weekday(from_unixtime(-1e17))", "julian_date(from_unixtime(1e17))",
    "1e30 m -> [ft, inch]", "NaN m -> [m, cm]", "inf m -> [km, m]", "1 m -> [m, m]", "1 m -> []", "1 m -> [s]", "-1.5 m -> [m, cm, mm]", "unit_list([m], 1 m)", "1e30 s -> [year, day, h, min, s]", "DMS(inf deg)", "DM(NaN deg)", "feet_and_inches(inf m)", "pounds_and_ounces(NaN kg)",
    "diff(x^2, x)", "dsolve_runge_kutta(f, 0, 1, 0, 1)", "fixed_point(cos, 1, 0)", "bisection(sin, 3, 4, 0, 0)", "quadratic_equation(0, 0, 0)", "cubic_equation(0, 0, 0, 0)", "random()", "rand_int(1, 0)", "rand_norm(0, -1)", "rand_bernoulli(2)",
    "struct A { a: A }", "struct A {}", "struct A { a: Scalar, a: Scalar }", "A { }", "let ans = 1", "let _ = 1", "fn ans() = 1", "unit ans", "dimension ans", "let m = 1", "fn m() = 1", "fn sin(x) = x", "let sin = 1", "unit sin", "unit m",
    "fn f(x) = f(x)", "fn f() = f", "fn f(f) = f(f)", "fn f<D>(x: D) -> D^2 = x", "fn f<D: Dim>(x: D) -> D^(1/0) = x", "fn f(x: Length^(1/0)) = x", "let x: Length^(2^200) = 1", "let x: Length^1e30 = 1", "let x: 1 / 0 = 1", "let x: Scalar^inf = 1",
    "dimension D = D", "dimension D = D^2", "unit u: U", "unit u = u", "@metric_prefixes unit", "@aliases() unit u", "@aliases(m) unit u2", "@name(\"\") unit u", "@url() fn f() = 1", "@abbreviation(m) let x = 1", "@example(\"1/0\") fn f() = 1",
    "use", "use a::", "use ::a", "use prelude::prelude", "use core::scalar; use core::scalar", "use extra::astronomy\nuse extra::astronomy", "use units::currencies\n1 EUR -> USD", "1 EUR", "1 XBT", "1 EUR -> JPY", "use units::nonexistent",
    "1 where", "x where x = x", "x where x = 1 and y", "where x = 1", "f(x) where f = sin", "1 per", "per 1", "to m", "1 to", "if", "if 1", "if true then", "if true then 1 else", "then", "else 1", "true && 1", "!1", "!\"a\"", "-\"a\"", "\"a\"!", "\"a\" + \"b\"", "\"a\" * 2", "[1] + [1]", "[1, \"a\"]", "[[1], 1]", "[sin]", "[sin, cos]", "[m, s]",
    "1.a", "1.0.0", "a.b.c", "\"a\".b", "[1].a", "sin.a", "m.a", "(1).a", "1 .a", "x.0", "1 m2", "1 m²³", "1 m⁻", "m⁰", "m⁻⁰", "m⁺¹", "2²²", "²", "m^-", "m^+2", "m^--2", "m^-(-2)", "2^-2^-2", "2**", "**2", "2***2",
    "?", "? + 1", "fn f() = ?", "let x: ? = 1", "1 ?", "??", "…", "...", "1 ... 2", "#", "# x", "1 # x\n+ 2", "\n\n\n", " ", "\t", "\r", "\r\n1", "1\r\n2", "1;2", "1\u{0}2", "\u{feff}1", "1\u{a0}m", "1\u{2009}m", "1\u{200b}m", "\u{202e}1 + 2", "\"\u{202e}\"", "\"\\\"", "\"\\q\"", "\"{\"", "\"}\"", "\"{}\"", "\"{{}\"", "\"{1\"", "\"{1:}\"", "\"{1:>}\"", "\"{\"{1}\"}\"", "\"{\"", "\"\n\"", "\"", "\"\"\"",
];
const NUMBERS: &[&str] = &["0", "1", "2", "3", "7", "10", "0.5", "1.5", ".25", "1e3", "1e-3", "2.5e10", "1e300", "1e-300", "1e308", "1e309", "255", "256", "65535", "65536", "1_000", "0x10", "0b101", "0o17",
    "9007199254740993", "123456789012345678901234567890", "0.1", "1e30", "-0", "4294967296", "18446744073709551616", "170141183460469231731687303715884105728"];
const PUNCT: &[&str] = &["(", ")", "[", "]", "{", "}", ",", ":", ";", "=", "+", "-", "*", "/", "^", "**", "!", "->", "→", "<", ">", "<=", ">=", "==", "!=", "&&", "||", "|>", ".", "..", "\"", "{", "}", "#", "@", "?", "²", "³", "⁻¹", "×", "÷", "·", "≤", "≥", "≠",
    "per", "to", "if", "then", "else", "let", "fn", "unit", "dimension", "struct", "use", "where", "and", "print", "assert_eq", "type", "\n", " ", "\t"];

impl Gen {
    fn pick<'a>(&mut self, xs: &'a [&'a str]) -> &'a str {
        xs[self.rng.below(xs.len() as u64) as usize]
    }
    fn number(&mut self) -> String {
        if self.rng.chance(1, 3) {
            return format!("{}", self.rng.below(20));
        }
        self.pick(NUMBERS).to_string()
    }
    fn var(&mut self) -> String {
        format!("zq{}", self.rng.below(3))
    }
    /// an expression meant to be a scalar
    fn scalar(&mut self, d: u32) -> String {
        if d == 0 || self.rng.chance(1, 5) {
            return match self.rng.below(10) {
                0 => self.var(),
                1 => self.pick(&["pi", "e", "inf", "NaN", "ans"]).to_string(),
                _ => self.number(),
            };
        }
        match self.rng.below(16) {
            0 | 1 => format!("{} + {}", self.scalar(d - 1), self.scalar(d - 1)),
            2 => format!("{} - {}", self.scalar(d - 1), self.scalar(d - 1)),
            3 | 4 => format!("{} * {}", self.scalar(d - 1), self.scalar(d - 1)),
            5 => format!("{} / {}", self.scalar(d - 1), self.scalar(d - 1)),
            6 => format!("({})^{}", self.scalar(d - 1), self.scalar((d - 1).min(1))),
            7 => format!("{}({})", self.pick(SCALAR_FNS), self.scalar(d - 1)),
            8 => format!("({})", self.scalar(d - 1)),
            9 => format!("-{}", self.scalar(d - 1)),
            10 => format!("({})!{}", self.scalar((d - 1).min(1)), if self.rng.chance(1, 3) { "!" } else { "" }),
            11 => format!("if {} then {} else {}", self.cond(d - 1), self.scalar(d - 1), self.scalar(d - 1)),
            12 => format!("({}) / ({})", self.length(d - 1), self.length(d - 1)),
            13 => format!("{} |> {}", self.scalar(d - 1), self.pick(SCALAR_FNS)),
            14 => match self.rng.below(4) {
                0 => format!("len({})", self.list(d - 1)),
                // a callee that is an expression (conditional / parenthesised), with unit identifiers inside
                1 => format!("(if {} then {} else {})({})", self.cond(d - 1), self.pick(SCALAR_FNS), self.pick(SCALAR_FNS), self.scalar(d - 1)),
                2 => format!("(if {} == {} then {} else {})({})", self.pick(UNITS), self.pick(UNITS), self.pick(SCALAR_FNS), self.pick(SCALAR_FNS), self.scalar(d - 1)),
                _ => format!("({})({})", self.pick(SCALAR_FNS), self.scalar(d - 1)),
            },
            _ => format!("{} {}", self.scalar(d - 1), self.pick(&["percent", "%", "deg", "dozen", "million", "ppm"])),
        }
    }
    fn length(&mut self, d: u32) -> String {
        if d == 0 || self.rng.chance(1, 4) {
            return format!("{} {}", self.number(), self.pick(LEN_UNITS));
        }
        match self.rng.below(10) {
            0 | 1 => format!("{} + {}", self.length(d - 1), self.length(d - 1)),
            2 => format!("{} - {}", self.length(d - 1), self.length(d - 1)),
            3 => format!("{} * ({})", self.length(d - 1), self.scalar(d - 1)),
            4 => format!("({}) -> {}", self.length(d - 1), self.pick(LEN_UNITS)),
            5 => format!("({}) * ({})", self.time(d - 1), self.speed(d - 1)),
            6 => format!("sqrt(({}) * ({}))", self.length(d - 1), self.length(d - 1)),
            7 => format!("if {} then {} else {}", self.cond(d - 1), self.length(d - 1), self.length(d - 1)),
            8 => format!("abs({})", self.length(d - 1)),
            _ => format!("({})", self.length(d - 1)),
        }
    }
    fn time(&mut self, d: u32) -> String {
        if d == 0 || self.rng.chance(1, 2) {
            return format!("{} {}", self.number(), self.pick(TIME_UNITS));
        }
        match self.rng.below(3) {
            0 => format!("{} + {}", self.time(d - 1), self.time(d - 1)),
            1 => format!("({}) / ({})", self.length(d - 1), self.speed(d - 1)),
            _ => format!("({}) -> {}", self.time(d - 1), self.pick(TIME_UNITS)),
        }
    }
    fn speed(&mut self, d: u32) -> String {
        if d == 0 || self.rng.chance(1, 2) {
            return format!("{} {}{}{}", self.number(), self.pick(LEN_UNITS), self.pick(&["/", " per "]), self.pick(TIME_UNITS));
        }
        format!("({}) / ({})", self.length(d - 1), self.time(d - 1))
    }
    fn cond(&mut self, d: u32) -> String {
        match self.rng.below(6) {
            0 => self.pick(&["true", "false"]).to_string(),
            1 => format!("{} < {}", self.length(d), self.length(d)),
            2 => format!("{} == {}", self.scalar(d), self.scalar(d)),
            3 => format!("{} >= {} && {}", self.scalar(d), self.scalar(d), self.cond(d.saturating_sub(1))),
            4 => format!("!({}) || {}", self.cond(d.saturating_sub(1)), self.cond(d.saturating_sub(1))),
            _ => format!("{} != {}", self.time(d), self.time(d)),
        }
    }
    fn list(&mut self, d: u32) -> String {
        let n = self.rng.below(4);
        let items: Vec<String> = (0..n).map(|_| if self.rng.chance(1, 2) { self.scalar(d) } else { self.length(d) }).collect();
        format!("[{}]", items.join(", "))
    }
    fn string(&mut self, d: u32) -> String {
        let mut s = String::from("\"");
        for _ in 0..self.rng.below(4) {
            match self.rng.below(5) {
                0 => s.push_str(&format!("{{{}}}", self.any(d.saturating_sub(1)))),
                1 => s.push_str(&format!("{{{}:>{}.{}f}}", self.scalar(d.saturating_sub(1)), self.rng.below(30), self.rng.below(20))),
                2 => s.push_str(self.pick(&["\\n", "\\\"", "\\\\", "{{", "µ", "→", "😀", "\\t"])),
                _ => s.push_str(self.pick(&["a", "value: ", " m", "x = ", "1"])),
            }
        }
        s.push('"');
        s
    }
    /// any expression: mostly well-formed, sometimes wild
    fn any(&mut self, d: u32) -> String {
        match self.rng.below(12) {
            0..=3 => self.scalar(d),
            4 | 5 => self.length(d),
            6 => self.time(d),
            7 => self.speed(d),
            8 => self.list(d),
            9 => self.string(d),
            10 => self.pick(WILD).to_string(),
            _ => format!("{} {} {}", self.any(d.saturating_sub(1)), self.pick(&["+", "*", "/", "^", "->", "==", "<", "-", "|>", "per", "&&"]), self.any(d.saturating_sub(1))),
        }
    }
    fn statement(&mut self, d: u32) -> String {
        match self.rng.below(20) {
            0 | 1 => format!("let {} = {}", self.var(), self.any(d)),
            2 => format!("let {}: {} = {}", self.var(), self.pick(&["Length", "Time", "Scalar", "Velocity", "Bool", "String", "List<Scalar>", "Length^2", "Length / Time", "Mass^(1/3)"]), self.any(d)),
            3 => format!("fn zf{}(x) = {} * x", self.rng.below(2), self.any(d)),
            4 => format!("fn zf{}(x: Length, y) -> Length = x + {}", self.rng.below(2), self.length(d)),
            5 => format!("fn zg<D: Dim>(x: D) -> D^2 = x * x\nzg({})", self.any(d)),
            6 => format!("zf{}({})", self.rng.below(2), self.any(d)),
            7 => format!("print({})", self.any(d)),
            8 => format!("assert_eq({}, {})", self.any(d), self.any(d)),
            9 => format!("assert_eq({}, {}, {})", self.length(d), self.length(d), self.length(d.min(1))),
            10 => format!("assert_eq({}, {}, {})", self.any(d), self.any(d), self.any(d.min(1))),
            11 => format!("unit zu{} = {}", self.rng.below(2), self.any(d)),
            12 => format!("unit zu{}: {}", self.rng.below(2), self.pick(&["Length", "Time", "Scalar", "Zd"])),
            13 => format!("dimension Zd{}", if self.rng.chance(1, 2) { " = Length^2 / Time" } else { "" }),
            14 => format!("({}) -> {}", self.any(d), self.pick(UNITS)),
            15 => format!("struct Zs {{ a: Length, b: Scalar }}\nZs {{ a: {}, b: {} }}.{}", self.length(d), self.scalar(d), self.pick(&["a", "b", "c"])),
            16 => { let v = self.var(); format!("fn zf{}(x) = {} * {} where {} = {}", self.rng.below(2), v, self.scalar(d), v, self.any(d)) }
            _ => self.any(d),
        }
    }
    fn program(&mut self) -> String {
        let n = 1 + self.rng.below(4);
        let d = 1 + self.rng.below(8) as u32; // depth <= 8
        let d = if n > 2 { d.min(5) } else { d };
        (0..n).map(|_| self.statement(d)).collect::<Vec<_>>().join("\n")
    }

    fn window(&mut self) -> String {
        let i = self.rng.below(self.corpus.len() as u64) as usize;
        let text = self.corpus[i].1.clone();
        let lines: Vec<&str> = text.lines().collect();
        if lines.len() <= 12 || self.rng.chance(1, 12) {
            return text;
        }
        let k = 1 + self.rng.below(12) as usize;
        let a = self.rng.below((lines.len() - k) as u64 + 1) as usize;
        lines[a..a + k].join("\n")
    }
    fn mutate_units(&mut self, mut units: Vec<String>) -> Vec<String> {
        for _ in 0..1 + self.rng.below(3) {
            if units.is_empty() {
                units.push(self.pick(PUNCT).to_string());
                continue;
            }
            let n = units.len() as u64;
            let i = self.rng.below(n) as usize;
            let span = (1 + self.rng.below(4) as usize).min(units.len() - i);
            match self.rng.below(5) {
                0 => { units.drain(i..i + span); }
                1 => { let dup: Vec<String> = units[i..i + span].to_vec(); let times = 1 + self.rng.below(3); for _ in 0..times { for (k, u) in dup.iter().enumerate() { units.insert(i + k, u.clone()); } } }
                2 => { let j = self.rng.below(n) as usize; units.swap(i, j); }
                3 => { let f = if self.rng.chance(1, 2) || self.frags.is_empty() { self.pick(PUNCT).to_string() } else { self.frags[self.rng.below(self.frags.len() as u64) as usize].clone() }; units.insert(i, f); }
                _ => { let f = if self.rng.chance(1, 2) { self.number() } else { self.pick(PUNCT).to_string() }; units[i] = f; }
            }
        }
        units
    }
    fn mut_char(&mut self) -> String {
        let w = self.window();
        let units: Vec<String> = w.chars().map(|c| c.to_string()).collect();
        self.mutate_units(units).concat()
    }
    fn mut_token(&mut self) -> String {
        let w = self.window();
        let units = split_tokens(&w);
        self.mutate_units(units).concat()
    }
    fn mut_byte(&mut self) -> String {
        let w = self.window();
        let mut b = w.into_bytes();
        for _ in 0..1 + self.rng.below(3) {
            if b.is_empty() { b.push(self.rng.below(256) as u8); continue; }
            let i = self.rng.below(b.len() as u64) as usize;
            match self.rng.below(5) {
                0 => { b.remove(i); }
                1 => { let x = b[i]; b.insert(i, x); }
                2 => { let j = self.rng.below(b.len() as u64) as usize; b.swap(i, j); }
                3 => { b.insert(i, self.rng.below(256) as u8); }
                _ => { b[i] ^= 1 << self.rng.below(8); }
            }
        }
        String::from_utf8_lossy(&b).into_owned()
    }
    fn big(&mut self) -> u64 {
        // log-uniform repetition count up to ~3000
        let e = self.rng.below(12);
        (1u64 << e) + self.rng.below(1 << e)
    }
    fn extreme(&mut self) -> String {
        let n = self.big() as usize;
        let small = 1 + self.rng.below(40) as usize;
        let digits = |g: &mut Gen, k: usize, radix: u32| -> String { (0..k).map(|_| std::char::from_digit(g.rng.below(radix as u64) as u32, radix).unwrap()).collect() };
        match self.rng.below(24) {
            0 => format!("1e{}{}", self.pick(&["", "-", "+"]), self.rng.below(100000)),
            1 => format!("{}.{}e{}", digits(self, small, 10), digits(self, small, 10), self.rng.below(400)),
            2 => format!("0x{}", digits(self, small * 2, 16)),
            3 => format!("0b{}", digits(self, small * 4, 2)),
            4 => format!("0o{}", digits(self, small * 2, 8)),
            5 => digits(self, n.min(2000), 10),
            6 => format!("{}{}", self.number(), self.pick(&["_", "__1", "e", "e+", ".", "..", ".e1", "_e1", "e_1", "x", "0x", "0b2", "0o8", "e1e1", "E400", "e-400"])),
            7 => format!("{}^{}^{}", self.number(), self.number(), self.number()),
            8 => format!("({})^{}^{}", self.length(1), self.number(), self.number()),
            9 => format!("(({})^{})^{}", self.speed(0), self.number(), self.number()),
            10 => format!("({} {})^({}/{})", self.number(), self.pick(UNITS), self.number(), self.number()),
            11 => format!("{}{}", self.number(), "!".repeat(n.min(600))),
            12 => format!("{}1{}", "(".repeat(n.min(700)), ")".repeat(n.min(700))),
            13 => format!("{}1{}", "[".repeat(n.min(700)), "]".repeat(n.min(700))),
            14 => format!("{}1", "-".repeat(n.min(700))),
            15 => format!("1{}", " + 1".repeat(n.min(700))),
            16 => format!("2{}", "^2".repeat(n.min(700))),
            17 => format!("{}1{}", "sin(".repeat(n.min(500)), ")".repeat(n.min(500))),
            18 => format!("{}1{}", "if true then ".repeat(n.min(300)), " else 0".repeat(n.min(300))),
            19 => format!("[{}1]", "1, ".repeat(n)),
            20 => format!("m{}", self.pick(&["⁹⁹⁹⁹⁹⁹⁹⁹⁹⁹⁹⁹", "⁻⁹⁹", "²³", "^(2^70)", "^1e20", "^-1e20", "^(1/3)^(1/3)", "^0", "^(0/0)", "^NaN", "^inf", "**0.5**0.5"])),
            21 => format!("{} {} -> {}", self.number(), self.pick(UNITS), self.pick(UNITS)),
            22 => format!("\"{}\"", "{\"".repeat(small.min(8)) + "1" + &"\"}".repeat(small.min(8))),
            _ => format!("{} {}", self.number(), (0..small.min(12)).map(|_| format!("{}^{}", self.pick(UNITS), self.number())).collect::<Vec<_>>().join(" ")),
        }
    }
    fn utf8(&mut self) -> String {
        const RANGES: &[(u32, u32)] = &[(0x20, 0x7f), (0x20, 0x7f), (0x30, 0x3a), (0xa0, 0x100), (0x2070, 0x20a0), (0x2190, 0x2200), (0x2200, 0x2300), (0x370, 0x400), (0x300, 0x370),
            (0x20a0, 0x20c0), (0x1f600, 0x1f650), (0x590, 0x600), (0x0, 0x20), (0xfe00, 0xff00), (0xe000, 0xe010), (0x10fff0, 0x110000), (0x27a0, 0x27c0), (0xd7f0, 0xd800), (0x2a70, 0x2a80)];
        let n = 1 + self.rng.below(40);
        let mut s = String::new();
        for _ in 0..n {
            if self.rng.chance(1, 4) {
                s.push_str(self.pick(PUNCT));
                continue;
            }
            let (a, b) = RANGES[self.rng.below(RANGES.len() as u64) as usize];
            if let Some(c) = char::from_u32(a + self.rng.below((b - a) as u64) as u32) {
                s.push(c);
            }
        }
        s
    }
    fn bytes(&mut self) -> String {
        let n = 1 + self.rng.below(60);
        let ascii = self.rng.chance(1, 2);
        let b: Vec<u8> = (0..n).map(|_| if ascii { 0x20 + self.rng.below(0x5f) as u8 } else { self.rng.below(256) as u8 }).collect();
        String::from_utf8_lossy(&b).into_owned()
    }
    fn soup(&mut self) -> String {
        let n = 1 + self.rng.below(14);
        let mut s = String::new();
        for _ in 0..n {
            match self.rng.below(6) {
                0 => s.push_str(&self.number()),
                1 => s.push_str(self.pick(UNITS)),
                2 => s.push_str(self.pick(SCALAR_FNS)),
                3 => s.push_str(&self.var()),
                _ => s.push_str(self.pick(PUNCT)),
            }
            if self.rng.chance(2, 3) {
                s.push(' ');
            }
        }
        s
    }
}

fn split_tokens(text: &str) -> Vec<String> {
    let mut out: Vec<String> = vec![];
    let mut cur = String::new();
    let mut kind = 0u8; // 1 word, 2 blank
    for c in text.chars() {
        let k = if c.is_alphanumeric() || c == '_' { 1 } else if c == ' ' || c == '\t' { 2 } else { 0 };
        if k != 0 && k == kind {
            cur.push(c);
            continue;
        }
        if !cur.is_empty() {
            out.push(std::mem::take(&mut cur));
        }
        if k == 0 {
            out.push(c.to_string());
            kind = 0;
        } else {
            cur.push(c);
            kind = k;
        }
    }
    if !cur.is_empty() {
        out.push(cur);
    }
    out
}

fn collect_nbt(dir: &std::path::Path, out: &mut Vec<std::path::PathBuf>) {
    if let Ok(rd) = std::fs::read_dir(dir) {
        let mut es: Vec<_> = rd.flatten().map(|e| e.path()).collect();
        es.sort();
        for p in es {
            if p.is_dir() {
                collect_nbt(&p, out);
            } else if p.extension().map(|e| e == "nbt").unwrap_or(false) {
                out.push(p);
            }
        }
    }
}

fn generate(args: &[String]) -> i32 {
    let seed = arg_u64(args, "--seed", 1);
    let n = arg_u64(args, "--n", 1000);
    let repo = arg(args, "--repo").unwrap_or("/repo").to_string();
    let mut files = vec![];
    collect_nbt(std::path::Path::new(&format!("{repo}/examples")), &mut files);
    collect_nbt(std::path::Path::new(&format!("{repo}/numbat/modules")), &mut files);
    let corpus: Vec<(String, String)> = files.iter().filter_map(|p| std::fs::read(p).ok().map(|b| (p.to_string_lossy().into_owned(), String::from_utf8_lossy(&b).into_owned()))).collect();
    assert!(!corpus.is_empty(), "no corpus under {repo}");
    let mut frags: Vec<String> = vec![];
    for (_, t) in &corpus {
        for tok in split_tokens(t) {
            if !tok.trim().is_empty() && frags.len() < 200_000 {
                frags.push(tok);
            }
        }
    }
    let mut g = Gen { rng: Rng::new(seed ^ 0xC08), corpus, frags };
    let mut out = Out::new(arg(args, "--out"));
    // every corpus file once, unchanged (the mutations' baseline), then the random classes
    let whole: Vec<(String, String)> = g.corpus.clone();
    let mut k = 0u64;
    for t in SEEDS {
        if k >= n { break; }
        for sess in ["prelude", "fresh"] {
            out.line(&json!({"class": "seed", "sess": sess, "text": t}));
            k += 1;
        }
    }
    for (p, t) in &whole {
        if k >= n { break; }
        out.line(&json!({"class": "corpus", "sess": "prelude", "text": t, "src": p, "tmo": 20000}));
        k += 1;
    }
    while k < n {
        let (class, text) = match g.rng.below(20) {
            0..=5 => ("grammar", g.program()),
            6..=8 => ("mut-token", g.mut_token()),
            9 | 10 => ("mut-char", g.mut_char()),
            11 | 12 => ("mut-byte", g.mut_byte()),
            13 | 14 => ("extreme", g.extreme()),
            15 | 16 => ("utf8", g.utf8()),
            17 => ("bytes", g.bytes()),
            _ => ("soup", g.soup()),
        };
        let sess = if g.rng.chance(1, 5) { "fresh" } else { "prelude" };
        out.line(&json!({"class": class, "sess": sess, "text": text}));
        k += 1;
    }
    out.flush();
    0
}

fn main() {
    nvh::main_dispatch(&[("run", run), ("worker", worker), ("gen", generate)]);
}
