//! Modules (C17) and documented examples (C24).
//!
//! dump       module list of the builtin importer, direct `use`s of every module (parsed from its text)
//!            and the complete observation of a fresh session that imported this module alone
//! pairs      ordered pairs (a, b): fresh session, `use a`, `use b`; compact observation (hashes) + re-import
//! subsets    seeded random subsets of 3-8 modules in 2-3 random orders each; repeated imports
//! query      the generic engine behind pairs/subsets: --cases <ndjson of {id, seq:[module..], batch:bool}>
//! synthetic  TLC-generated module graphs replayed through the real resolver with a counting map importer
//! examples   every @example of every standard-library function, run the way the documentation generator does
//!
//! A name set / name->value map is reported as (count, multiset hash); the hash of a set is the wrapping sum
//! of FNV-1a-64 over the UTF-8 bytes of every entry, the hash of a sequence is the polynomial
//! h = h * 1099511628211 + fnv(entry).  lib/checks/c17.py computes the same hashes from the specification's
//! prediction; `--full` adds the complete lists so that a mismatch can be shown name by name.
use nvh::session::run_input;
use nvh::util::*;
use numbat::module_importer::{BuiltinModuleImporter, ModuleImporter};
use numbat::resolver::{CodeSource, ModulePath};
use numbat::Context;
use serde_json::{json, Value as J};
use std::collections::{BTreeMap, BTreeSet};
use std::path::PathBuf;
use std::sync::atomic::{AtomicUsize, Ordering};
use std::sync::{Arc, Mutex};

// ------------------------------------------------------------------------------------------ util

fn fnv(s: &str) -> u64 {
    let mut h: u64 = 0xcbf29ce484222325;
    for b in s.as_bytes() {
        h ^= *b as u64;
        h = h.wrapping_mul(0x100000001b3);
    }
    h
}

fn set_hash<'a>(items: impl Iterator<Item = &'a String>) -> String {
    let mut h: u64 = 0;
    for i in items {
        h = h.wrapping_add(fnv(i));
    }
    format!("{h:016x}")
}

fn seq_hash<'a>(items: impl Iterator<Item = &'a String>) -> String {
    let mut h: u64 = 0;
    for i in items {
        h = h.wrapping_mul(0x100000001b3).wrapping_add(fnv(i));
    }
    format!("{h:016x}")
}

/// dynamic work distribution on top of par_map (costs per item differ by a factor of 1000)
fn par_dyn<T: Sync, R: Send + Clone>(items: &[T], threads: usize, f: impl Fn(&T) -> R + Sync) -> Vec<R> {
    let next = AtomicUsize::new(0);
    let slots: Vec<Mutex<Option<R>>> = items.iter().map(|_| Mutex::new(None)).collect();
    let workers: Vec<usize> = (0..threads.max(1).min(items.len().max(1))).collect();
    par_map(&workers, workers.len(), |_| loop {
        let i = next.fetch_add(1, Ordering::SeqCst);
        if i >= items.len() {
            break;
        }
        let r = f(&items[i]);
        *slots[i].lock().unwrap() = Some(r);
    });
    slots.into_iter().map(|m| m.into_inner().unwrap().expect("item processed")).collect()
}

fn module_names() -> Vec<String> {
    let mut v: Vec<String> = BuiltinModuleImporter::default().list_modules().iter().map(|m| m.to_string()).collect();
    v.sort();
    v.dedup();
    v
}

fn module_path(name: &str) -> ModulePath {
    ModulePath(name.split("::").map(|s| s.into()).collect())
}

fn module_text(name: &str) -> Option<String> {
    BuiltinModuleImporter::default().import(&module_path(name)).map(|x| x.0)
}

/// the `use` lines of a module text, in order; second component: all of them precede the first definition
fn direct_uses(text: &str) -> (Vec<String>, bool) {
    let mut uses = vec![];
    let mut seen_def = false;
    let mut uses_first = true;
    for line in text.lines() {
        let l = line.split('#').next().unwrap_or("").trim();
        if l.is_empty() {
            continue;
        }
        if let Some(rest) = l.strip_prefix("use ") {
            uses.push(rest.trim().to_string());
            if seen_def {
                uses_first = false;
            }
        } else {
            seen_def = true;
        }
    }
    (uses, uses_first)
}

fn fresh() -> Context {
    Context::use_test_exchange_rates(); // offline; must precede any import of units::currencies
    Context::new(BuiltinModuleImporter::default())
}

// ---------------------------------------------------------------------------------- observation

#[derive(Clone, Default, PartialEq)]
struct Obs {
    vars: Vec<String>,
    fns: Vec<String>,
    units: Vec<String>,
    dims: Vec<String>,
    imported: Vec<String>,
    var_vals: BTreeMap<String, String>,
    fn_sigs: BTreeMap<String, String>,
    unit_defs: BTreeMap<String, String>,
    eval_errors: Vec<String>,
}

/// display string and printed type of every variable: one input `print(v)`/`type(v)` per variable on ONE clone
/// (a single interpret call: every interpret call snapshots the whole session)
fn variable_values(ctx: &Context, vars: &[String]) -> (BTreeMap<String, String>, Vec<String>) {
    let distinct: Vec<&String> = vars.iter().collect::<BTreeSet<_>>().into_iter().collect();
    let mut vals = BTreeMap::new();
    let mut errors = vec![];
    if distinct.is_empty() {
        return (vals, errors);
    }
    let mut c = ctx.clone();
    let code: String = distinct.iter().map(|v| format!("print({v})\ntype({v})\n")).collect();
    let r = run_input(&mut c, &code);
    if r.outcome == "ok" && r.out.len() == 2 * distinct.len() {
        for (i, v) in distinct.iter().enumerate() {
            vals.insert((*v).clone(), format!("{} :: {}", r.out[2 * i], r.out[2 * i + 1].trim_start_matches("= ")));
        }
        return (vals, errors);
    }
    // fall back to one input per variable so that the failing one is identified
    for v in distinct {
        let mut c = ctx.clone();
        let r = run_input(&mut c, &format!("print({v})\ntype({v})"));
        if r.outcome == "ok" && r.out.len() == 2 {
            vals.insert(v.clone(), format!("{} :: {}", r.out[0], r.out[1].trim_start_matches("= ")));
        } else {
            vals.insert(v.clone(), format!("<{}:{}>", r.outcome, r.kind));
            errors.push(format!("{v}: {} {} {}", r.outcome, r.kind, r.message.chars().take(200).collect::<String>()));
        }
    }
    (vals, errors)
}

fn observe(ctx: &Context) -> Obs {
    let vars: Vec<String> = ctx.variable_names().map(|s| s.to_string()).collect();
    let fns: Vec<String> = ctx.function_names().map(|s| s.to_string()).collect();
    let units: Vec<String> = ctx.unit_names().iter().flatten().map(|s| s.to_string()).collect();
    let dims: Vec<String> = ctx.dimension_names().iter().map(|s| s.to_string()).collect();
    let imported: Vec<String> = ctx.resolver().imported_modules.iter().map(|m| m.to_string()).collect();
    let (var_vals, eval_errors) = variable_values(ctx, &vars);
    let mut fn_sigs = BTreeMap::new();
    for f in ctx.functions() {
        fn_sigs.insert(f.fn_name.to_string(), f.signature_str.to_string());
    }
    let mut unit_defs = BTreeMap::new();
    for e in numbat::verif::unit_table(ctx) {
        let def: Vec<String> = e.defining_unit.iter().map(|f| format!("{}^{}/{}@{}{}", f.1, f.4, f.5, f.2, f.3)).collect();
        let dim: Vec<String> = e.dimension.iter().map(|(b, n, d)| format!("{b}^{n}/{d}")).collect();
        let aliases: Vec<String> = e.aliases.iter().map(|(a, s, l)| format!("{a}:{}{}", *s as u8, *l as u8)).collect();
        unit_defs.insert(
            e.name.clone(),
            format!("{}|{}|m{}b{}|base{}|{:e}|{}|{}", e.canonical_name, aliases.join(","), e.metric_prefixes as u8, e.binary_prefixes as u8,
                    e.is_base as u8, e.factor, def.join("*"), dim.join("*")),
        );
    }
    Obs { vars, fns, units, dims, imported, var_vals, fn_sigs, unit_defs, eval_errors }
}

fn kv(m: &BTreeMap<String, String>) -> Vec<String> {
    m.iter().map(|(k, v)| format!("{k}\u{1f}{v}")).collect()
}

impl Obs {
    fn compact(&self) -> J {
        let set = |v: &Vec<String>| {
            let s: BTreeSet<&String> = v.iter().collect();
            json!({"n": v.len(), "nd": s.len(), "set": set_hash(s.into_iter()), "seq": seq_hash(v.iter())})
        };
        let map = |m: &BTreeMap<String, String>| {
            let e = kv(m);
            json!({"n": e.len(), "set": set_hash(e.iter())})
        };
        json!({"vars": set(&self.vars), "fns": set(&self.fns), "units": set(&self.units), "dims": set(&self.dims),
               "imported": self.imported, "var_vals": map(&self.var_vals), "fn_sigs": map(&self.fn_sigs),
               "unit_defs": map(&self.unit_defs), "eval_errors": self.eval_errors})
    }
    fn full(&self) -> J {
        json!({"vars": self.vars, "fns": self.fns, "units": self.units, "dims": self.dims, "imported": self.imported,
               "var_vals": self.var_vals, "fn_sigs": self.fn_sigs, "unit_defs": self.unit_defs, "eval_errors": self.eval_errors})
    }
}

// ----------------------------------------------------------------------------------------- dump

fn dump(args: &[String]) -> i32 {
    let threads = arg_u64(args, "--threads", 16) as usize;
    let names = module_names();
    let t0 = std::time::Instant::now();
    let mods: Vec<J> = par_dyn(&names, threads, |m| {
        let text = module_text(m).unwrap_or_default();
        let (uses, uses_first) = direct_uses(&text);
        let t = std::time::Instant::now();
        let mut ctx = fresh();
        let r = run_input(&mut ctx, &format!("use {m}"));
        let load_ms = t.elapsed().as_secs_f64() * 1e3;
        let o = observe(&ctx);
        // repeated import: `use m` again must change nothing
        let r2 = run_input(&mut ctx, &format!("use {m}"));
        let o2 = observe(&ctx);
        json!({"module": m, "uses": uses, "uses_first": uses_first, "lines": text.lines().count(),
               "outcome": r.outcome, "kind": r.kind, "message": r.message, "out": r.out, "load_ms": load_ms,
               "obs": o.full(), "compact": o.compact(),
               "reimport_outcome": r2.outcome, "reimport_same": o2 == o, "reimport_out": r2.out})
    });
    let mut out = Out::new(arg(args, "--out"));
    out.line(&json!({"ev": "meta", "modules": names, "wall_ms": t0.elapsed().as_millis() as u64}));
    for m in &mods {
        out.line(m);
    }
    out.flush();
    0
}

// ---------------------------------------------------------------------------------------- query

/// one query = a sequence of top-level `use`s on a fresh session
fn run_query(q: &J, full: bool) -> J {
    let seq: Vec<String> = q["seq"].as_array().unwrap().iter().map(|s| s.as_str().unwrap().to_string()).collect();
    let batch = q["batch"].as_bool().unwrap_or(false);
    let t = std::time::Instant::now();
    let mut ctx = fresh();
    let mut steps = vec![];
    let mut all_ok = true;
    let inputs: Vec<String> = if batch { vec![seq.iter().map(|m| format!("use {m}")).collect::<Vec<_>>().join("\n")] }
                              else { seq.iter().map(|m| format!("use {m}")).collect() };
    let mut first_obs: Option<Obs> = None;
    for (i, inp) in inputs.iter().enumerate() {
        let r = run_input(&mut ctx, inp);
        if r.outcome != "ok" {
            all_ok = false;
        }
        steps.push(json!({"input": inp, "outcome": r.outcome, "kind": r.kind,
                          "message": r.message.chars().take(400).collect::<String>(), "out": r.out}));
        // `use a; use a`: the second import must leave the session exactly as it was
        if i == 0 && !batch && seq.len() == 2 && seq[0] == seq[1] {
            first_obs = Some(observe(&ctx));
        }
    }
    let load_ms = t.elapsed().as_secs_f64() * 1e3;
    let o = observe(&ctx);
    let mut res = json!({"id": q["id"], "seq": seq, "batch": batch, "ok": all_ok, "steps": steps, "obs": o.compact(),
                         "load_ms": load_ms});
    if let Some(f) = first_obs {
        res["repeat_same"] = json!(f == o);
    }
    // re-import of every top-level module (all already imported): a no-op
    let mut re_ok = true;
    let mut re_out = 0;
    for m in seq.iter().collect::<BTreeSet<_>>() {
        let r = run_input(&mut ctx, &format!("use {m}"));
        re_ok &= r.outcome == "ok";
        re_out += r.out.len();
    }
    let o2 = observe(&ctx);
    res["reimport_ok"] = json!(re_ok);
    res["reimport_silent"] = json!(re_out == 0);
    res["reimport_same"] = json!(o2 == o);
    if full {
        res["full"] = o.full();
    }
    res["wall_ms"] = json!(t.elapsed().as_secs_f64() * 1e3);
    res
}

fn run_queries(args: &[String], queries: Vec<J>) -> i32 {
    let threads = arg_u64(args, "--threads", 16) as usize;
    let full = has_flag(args, "--full");
    let t0 = std::time::Instant::now();
    let results = par_dyn(&queries, threads, |q| run_query(q, full));
    let mut out = Out::new(arg(args, "--out"));
    for r in &results {
        out.line(r);
    }
    out.flush();
    eprintln!("{} queries in {:.1}s", results.len(), t0.elapsed().as_secs_f64());
    0
}

fn query(args: &[String]) -> i32 {
    let queries = read_ndjson(arg(args, "--cases").expect("--cases"));
    run_queries(args, queries)
}

/// pairs [--all | --sample N --seed S]: ordered pairs (a, b) incl. a = b; sampled pairs come with their mirror
fn pairs(args: &[String]) -> i32 {
    if arg(args, "--cases").is_some() {
        return query(args);
    }
    let names = module_names();
    let mut list: Vec<(String, String)> = vec![];
    if has_flag(args, "--all") {
        for a in &names {
            for b in &names {
                list.push((a.clone(), b.clone()));
            }
        }
    } else {
        let n = arg_u64(args, "--sample", 300) as usize;
        let mut rng = Rng::new(arg_u64(args, "--seed", 1));
        let mut seen = BTreeSet::new();
        for a in &names {
            seen.insert((a.clone(), a.clone())); // every single module, as `use a; use a`
        }
        let mut guard = 0;
        while seen.len() < n.max(names.len()) && guard < 100 * n {
            guard += 1;
            let a = rng.pick(&names).clone();
            let b = rng.pick(&names).clone();
            if a == b {
                continue;
            }
            seen.insert((a.clone(), b.clone()));
            seen.insert((b, a));
        }
        list = seen.into_iter().collect();
    }
    let queries: Vec<J> = list.iter().enumerate().map(|(i, (a, b))| json!({"id": i, "seq": [a, b], "batch": false})).collect();
    run_queries(args, queries)
}

/// subsets --n N --seed S: N random subsets of 3-8 modules, each in 2-3 random orders (one `use` per input),
/// the first order also as one batched input
fn subsets(args: &[String]) -> i32 {
    if arg(args, "--cases").is_some() {
        return query(args);
    }
    let names = module_names();
    let n = arg_u64(args, "--n", 40) as usize;
    let mut rng = Rng::new(arg_u64(args, "--seed", 1) ^ 0x5eb5e7);
    let mut queries = vec![];
    for g in 0..n {
        let k = 3 + rng.below(6) as usize;
        let mut pool = names.clone();
        let mut sub = vec![];
        for _ in 0..k {
            let i = rng.below(pool.len() as u64) as usize;
            sub.push(pool.swap_remove(i));
        }
        let orders = 2 + rng.below(2) as usize;
        for o in 0..orders {
            let mut s = sub.clone();
            if o > 0 {
                for i in (1..s.len()).rev() {
                    let j = rng.below(i as u64 + 1) as usize;
                    s.swap(i, j);
                }
                // a repeated import in the middle of the sequence
                if rng.chance(1, 2) {
                    let d = s[rng.below(s.len() as u64) as usize].clone();
                    s.push(d);
                }
            }
            queries.push(json!({"id": queries.len(), "group": g, "seq": s, "batch": false}));
            if o == 0 {
                queries.push(json!({"id": queries.len(), "group": g, "seq": sub, "batch": true}));
            }
        }
    }
    let groups: Vec<J> = queries.iter().map(|q| q["group"].clone()).collect();
    let threads = arg_u64(args, "--threads", 16) as usize;
    let full = has_flag(args, "--full");
    let results = par_dyn(&queries, threads, |q| run_query(q, full));
    let mut out = Out::new(arg(args, "--out"));
    for (r, g) in results.iter().zip(groups) {
        let mut r = r.clone();
        r["group"] = g;
        out.line(&r);
    }
    out.flush();
    0
}

// ------------------------------------------------------------------------------------ synthetic

/// serves synthetic modules and counts the imports: more imports than modules means that a module was
/// inlined twice; a run-away recursion (cyclic graph without de-duplication) is cut by a panic, which
/// run_input reports as outcome "panic"
struct CountingImporter {
    modules: Vec<(String, String)>,
    count: Arc<AtomicUsize>,
    limit: usize,
}

impl ModuleImporter for CountingImporter {
    fn import(&self, path: &ModulePath) -> Option<(String, Option<PathBuf>)> {
        let n = self.count.fetch_add(1, Ordering::SeqCst) + 1;
        if n > self.limit {
            panic!("import limit exceeded: {n} imports in a graph of {} modules", self.modules.len());
        }
        let name = path.to_string();
        self.modules.iter().find(|(n, _)| *n == name).map(|(_, t)| (t.clone(), None))
    }
    fn list_modules(&self) -> Vec<ModulePath> {
        self.modules.iter().map(|(n, _)| module_path(n)).collect()
    }
}

fn mod_name(i: u64) -> String {
    format!("zm{i}")
}

fn var_owner(v: &str) -> i64 {
    v.strip_prefix("zm").and_then(|r| r.strip_suffix("_x")).and_then(|d| d.parse().ok()).unwrap_or(-1)
}

/// case: {id, uses: [[succ..] per module 1..N], runs: [[top..]..]}; module i = `use` of its successors in the given
/// order, then `let zm<i>_x = i`.  Per run: batch input and one-input-per-use, loaded list, definition order,
/// number of imports served, re-import of every loaded module.
fn run_synth(case: &J) -> J {
    let uses: Vec<Vec<u64>> = case["uses"].as_array().unwrap().iter()
        .map(|u| u.as_array().unwrap().iter().map(|x| x.as_u64().unwrap()).collect()).collect();
    let n = uses.len();
    let modules: Vec<(String, String)> = uses.iter().enumerate().map(|(i, u)| {
        let mut t: String = u.iter().map(|s| format!("use {}\n", mod_name(*s))).collect();
        t.push_str(&format!("let {}_x = {}", mod_name(i as u64 + 1), i + 1));
        (mod_name(i as u64 + 1), t)
    }).collect();
    let mut runs = vec![];
    for tops in case["runs"].as_array().unwrap() {
        let tops: Vec<u64> = tops.as_array().unwrap().iter().map(|x| x.as_u64().unwrap()).collect();
        let mut variants = vec![];
        for batch in [true, false] {
            let count = Arc::new(AtomicUsize::new(0));
            let mut ctx = Context::new(CountingImporter { modules: modules.clone(), count: count.clone(), limit: 8 * n + 8 });
            let inputs: Vec<String> = if batch { vec![tops.iter().map(|m| format!("use {}", mod_name(*m))).collect::<Vec<_>>().join("\n")] }
                                      else { tops.iter().map(|m| format!("use {}", mod_name(*m))).collect() };
            let mut outcome = "ok".to_string();
            let mut message = String::new();
            for inp in &inputs {
                let r = run_input(&mut ctx, inp);
                if r.outcome != "ok" {
                    outcome = format!("{}:{}", r.outcome, r.kind);
                    message = r.message.chars().take(200).collect();
                    break;
                }
            }
            let order: Vec<i64> = ctx.variable_names().map(|v| var_owner(&v)).collect();
            let loaded: Vec<i64> = ctx.resolver().imported_modules.iter().map(|m| m.to_string().trim_start_matches("zm").parse().unwrap_or(-1)).collect();
            let served = count.load(Ordering::SeqCst);
            // every definition has its value
            let mut values_ok = true;
            // re-import of every loaded module: nothing may change, nothing may be served
            let mut re_ok = true;
            if outcome == "ok" {
                for m in &order {
                    let mut c = ctx.clone();
                    let r = run_input(&mut c, &format!("zm{m}_x"));
                    values_ok &= r.outcome == "ok" && r.value.as_ref().map(|v| v.to_string()) == Some(m.to_string());
                }
                for m in &loaded {
                    let r = run_input(&mut ctx, &format!("use zm{m}"));
                    re_ok &= r.outcome == "ok";
                }
                let order2: Vec<i64> = ctx.variable_names().map(|v| var_owner(&v)).collect();
                let loaded2: Vec<i64> = ctx.resolver().imported_modules.iter().map(|m| m.to_string().trim_start_matches("zm").parse().unwrap_or(-1)).collect();
                re_ok &= order2 == order && loaded2 == loaded && count.load(Ordering::SeqCst) == served;
            }
            variants.push(json!({"batch": batch, "outcome": outcome, "message": message, "order": order, "loaded": loaded,
                                 "served": served, "values_ok": values_ok, "reimport_noop": re_ok}));
        }
        runs.push(json!({"tops": tops, "variants": variants}));
    }
    json!({"id": case["id"], "runs": runs})
}

fn synthetic(args: &[String]) -> i32 {
    let cases = read_ndjson(arg(args, "--cases").expect("--cases"));
    let threads = arg_u64(args, "--threads", 16) as usize;
    let results = par_dyn(&cases, threads, run_synth);
    let mut out = Out::new(arg(args, "--out"));
    for r in &results {
        out.line(r);
    }
    out.flush();
    0
}

// ------------------------------------------------------------------------------------- examples

fn names_digest(ctx: &Context) -> String {
    let v: Vec<String> = ctx.variable_names().map(|s| s.to_string()).collect();
    let f: Vec<String> = ctx.function_names().map(|s| s.to_string()).collect();
    let u: Vec<String> = ctx.unit_names().iter().flatten().map(|s| s.to_string()).collect();
    let d: Vec<String> = ctx.dimension_names().iter().map(|s| s.to_string()).collect();
    let i: Vec<String> = ctx.resolver().imported_modules.iter().map(|m| m.to_string()).collect();
    format!("v{}:{} f{}:{} u{}:{} d{}:{} i{}:{}", v.len(), seq_hash(v.iter()), f.len(), seq_hash(f.iter()), u.len(), seq_hash(u.iter()),
            d.len(), seq_hash(d.iter()), i.len(), seq_hash(i.iter()))
}

/// C24.  Enumeration: Context::functions() of a session with `use all` (every standard-library function of the
/// current tree).  Execution, as numbat/examples/inspect.rs does it: a clone of the example session (prelude; here
/// plus units::currencies with the test exchange rates), `use <module of the function>` first if that module is
/// not imported there, then the example code as one input.
fn examples(args: &[String]) -> i32 {
    let threads = arg_u64(args, "--threads", 16) as usize;
    let mut all = fresh();
    let r = run_input(&mut all, "use all");
    if r.outcome != "ok" {
        eprintln!("use all failed: {} {}", r.outcome, r.message);
        return 2;
    }
    let mut parent = fresh();
    for m in ["use prelude", "use units::currencies"] {
        let r = run_input(&mut parent, m);
        if r.outcome != "ok" {
            eprintln!("{m} failed: {} {}", r.outcome, r.message);
            return 2;
        }
    }
    struct Ex { idx: usize, fn_name: String, module: String, code: String, descr: Option<String> }
    let mut exs = vec![];
    let mut nfn = 0;
    let mut nfn_with = 0;
    for f in all.functions() {
        nfn += 1;
        let module = match &f.code_source { CodeSource::Module(p, _) => p.to_string(), _ => String::new() };
        if !f.examples.is_empty() {
            nfn_with += 1;
        }
        for (code, descr) in &f.examples {
            exs.push(Ex { idx: exs.len() + 1, fn_name: f.fn_name.to_string(), module: module.clone(), code: code.to_string(),
                          descr: descr.as_ref().map(|d| d.to_string()) });
        }
    }
    let env_functions = ["args"];
    let digest0 = names_digest(&parent);
    let obs0 = observe(&parent);
    let parent_ref = &parent;
    let results: Vec<J> = par_dyn(&exs, threads, |e| {
        // each worker observes the one shared parent session only through clones
        let mut c = parent_ref.clone();
        let need_import = !c.resolver().imported_modules.iter().any(|m| m.to_string() == e.module) && !e.module.is_empty();
        let mut pre_outcome = "ok".to_string();
        if need_import {
            let r = run_input(&mut c, &format!("use {}", e.module));
            pre_outcome = r.outcome;
        }
        let r = if pre_outcome == "ok" { run_input(&mut c, &e.code) } else {
            nvh::session::StepResult { outcome: "import".into(), kind: pre_outcome.clone(), message: format!("use {} failed", e.module), out: vec![], value: None, echo: vec![] }
        };
        let mentions_env = env_functions.iter().any(|f| {
            // an identifier boundary on both sides of `f(`
            let pat = format!("{f}(");
            e.code.match_indices(&pat).any(|(i, _)| i == 0 || !e.code[..i].chars().next_back().map(|c| c.is_alphanumeric() || c == '_').unwrap_or(false))
        });
        json!({"ev": "example", "idx": e.idx, "fn": e.fn_name, "module": e.module, "code": e.code,
               "has_descr": e.descr.is_some(), "extra_import": need_import,
               "outcome": r.outcome, "kind": r.kind, "message": r.message.chars().take(600).collect::<String>(),
               "has_value": r.value.is_some(), "value": r.value.as_ref().map(|v| v.to_string()).unwrap_or_default(),
               "mentions_env": mentions_env, "clone_changed": names_digest(&c) != digest0,
               "parent": names_digest(parent_ref)})
    });
    let obs1 = observe(&parent);
    let mut out = Out::new(arg(args, "--out"));
    out.line(&json!({"ev": "start", "functions": nfn, "functions_with_examples": nfn_with, "examples": exs.len(), "parent": digest0,
                     "parent_imported": obs0.imported}));
    for r in &results {
        out.line(r);
    }
    out.line(&json!({"ev": "end", "count": results.len(), "parent": names_digest(&parent), "parent_obs_same": obs0 == obs1}));
    out.flush();
    0
}

fn main() {
    nvh::main_dispatch(&[("dump", dump), ("pairs", pairs), ("subsets", subsets), ("query", query), ("synthetic", synthetic),
                         ("examples", examples)]);
}
