//! C13: unit names and prefixes resolve correctly and uniquely (spec/PrefixParser.tla).
//!   dump         unit table of the prelude (as declared: aliases with accepted prefix forms, metric/binary flags,
//!                canonical name), the other identifiers of the session, and the prefix spellings the real prefix
//!                parser accepts (found behaviourally on probe units, no access to the private table)
//!   replay       (G, real table) resolve every identifier TLC built, evaluate the accepted ones, display and read back
//!   abs-replay   (G, abstract machine) replay TLC's sequences of additions on a fresh context and probe identifiers
//!   record       (J) seeded random unit/variable definitions on a fresh context, recorded for Trace_PrefixParser.tla
use numbat::value::Value;
use numbat::Context;
use nvh::session::{new_context, run_input};
use nvh::util::*;
use serde_json::{json, Value as J};

fn prelude_context() -> Context {
    let mut ctx = new_context(&[], true);
    let r = run_input(&mut ctx, "use prelude");
    if r.outcome != "ok" {
        panic!("cannot load the prelude: {}", r.message);
    }
    ctx
}

fn resolve(ctx: &Context, id: &str) -> J {
    match numbat::verif::resolve_identifier(ctx, id) {
        None => J::Null,
        Some((kind, exp, alias, full)) => json!({"kind": kind, "exp": exp, "alias": alias, "unit": full}),
    }
}

fn factors_json(fs: &[numbat::verif::FactorParts]) -> J {
    J::Array(fs.iter().map(|(name, canon, pk, pe, n, d)| json!({"unit": name, "canon": canon, "kind": pk, "exp": pe, "n": *n as i64, "d": *d as i64})).collect())
}

/// evaluate `code`; for a quantity: value, unit factor list (unsimplified if the code is a conversion), printed text
fn eval(ctx: &mut Context, code: &str) -> J {
    let r = run_input(ctx, code);
    if r.outcome != "ok" {
        return json!({"ok": false, "outcome": r.outcome, "kind": r.kind, "msg": r.message});
    }
    // observing the value (base-unit conversion factor, display) runs code under test too: a panic there is data
    let observed = std::panic::catch_unwind(std::panic::AssertUnwindSafe(|| match &r.value {
        Some(Value::Quantity(q)) => {
            let p = numbat::verif::quantity_parts(q);
            json!({"ok": true, "value": format!("{:e}", p.value), "unit": factors_json(&p.unit), "text": r.value.as_ref().unwrap().to_string(),
                   "unit_text": q.unit().to_string()})
        }
        Some(v) => json!({"ok": true, "text": v.to_string(), "nonquantity": true}),
        None => json!({"ok": true, "novalue": true}),
    }));
    observed.unwrap_or_else(|_| json!({"ok": false, "outcome": "panic", "kind": "panic", "msg": "panic while observing the value (conversion factor / display)"}))
}

/// does the reader take `text` as ONE identifier (and not, e.g., as two adjacent identifiers = a product)?
fn one_identifier(text: &str) -> bool {
    matches!(numbat::verif::parse_sexpr(text), Ok(v) if v.len() == 1 && v[0] == format!("(id {text})"))
}

// ------------------------------------------------------------------------------------------------
// dump

/// Which spellings does the real prefix parser accept, in which form, with which meaning?  Probe units in a fresh
/// context: `zqs` accepts short prefixes only, `zql` long prefixes only, both metric and binary.
fn observe_prefix_table(candidates: &[String]) -> Vec<J> {
    let mut ctx = new_context(&[], false);
    for code in ["dimension Zq", "@metric_prefixes\n@binary_prefixes\n@aliases(zqs: short)\nunit zqs: Zq",
                 "@metric_prefixes\n@binary_prefixes\n@aliases(zql: long)\nunit zql: Zq"] {
        let r = run_input(&mut ctx, code);
        if r.outcome != "ok" {
            panic!("probe unit definition failed: {code}: {}", r.message);
        }
    }
    let mut out = vec![];
    for c in candidates {
        for (form, probe) in [("short", "zqs"), ("long", "zql")] {
            if let Some((kind, exp, alias, _)) = numbat::verif::resolve_identifier(&ctx, &format!("{c}{probe}")) {
                if alias == probe {
                    out.push(json!({"text": c, "form": form, "kind": kind, "exp": exp}));
                }
            }
        }
    }
    out
}

fn dump(args: &[String]) -> i32 {
    let ctx = prelude_context();
    let mut units = vec![];
    for e in numbat::verif::unit_table(&ctx) {
        units.push(json!({
            "name": e.name, "canonical": e.canonical_name, "canon_short": e.canonical_short, "canon_long": e.canonical_long,
            "metric": e.metric_prefixes, "binary": e.binary_prefixes,
            "aliases": e.aliases.iter().map(|(a, s, l)| json!([a, s, l])).collect::<Vec<_>>(),
        }));
    }
    let mut others: Vec<String> = ctx.variable_names().map(|s| s.to_string()).collect();
    others.extend(ctx.function_names().map(|s| s.to_string()));
    others.sort();
    others.dedup();
    // candidate prefix spellings: the ones the specification states (file, one per line) plus every string of one or
    // two letters (Latin letters, micro sign, Greek mu) - finds short spellings the specification does not know
    let mut cands: Vec<String> = vec![];
    if let Some(p) = arg(args, "--spellings") {
        cands.extend(std::fs::read_to_string(p).unwrap().lines().map(|l| l.trim().to_string()).filter(|l| !l.is_empty()));
    }
    let letters: Vec<char> = ('a'..='z').chain('A'..='Z').chain(['\u{b5}', '\u{3bc}']).collect();
    for a in &letters {
        cands.push(a.to_string());
        for b in &letters {
            cands.push(format!("{a}{b}"));
        }
    }
    cands.sort();
    cands.dedup();
    let prefixes = observe_prefix_table(&cands);
    let mut out = Out::new(arg(args, "--out"));
    out.line(&json!({"units": units, "others": others, "prefixes": prefixes, "candidates": cands.len()}));
    out.flush();
    0
}

// ------------------------------------------------------------------------------------------------
// replay (real table)

/// case: {k, id, eval: bool, unit: full unit name}
/// out:  {k, res: null | {kind, exp, alias, unit}}  and for eval cases additionally
///       conv:  evaluation of `<id> -> <id>` (unit factor list of the unsimplified value, its printed unit text),
///       fac:   evaluation of `1 <id> -> <unit>` (the prefix factor as a number),
///       rb:    read-back of the printed unit text: its resolution and the evaluation of `<text> -> <text>`
fn replay_chunk(cases: &[J]) -> Vec<J> {
    let mut ctx = prelude_context();
    let mut out = vec![];
    for c in cases {
        let id = c["id"].as_str().unwrap();
        let mut o = json!({"k": c["k"], "res": resolve(&ctx, id)});
        if c["eval"].as_bool().unwrap_or(false) {
            o["one_token"] = json!(one_identifier(id));
            let conv = eval(&mut ctx, &format!("{id} -> {id}"));
            let fac = eval(&mut ctx, &format!("1 {id} -> {}", c["unit"].as_str().unwrap()));
            if let Some(text) = conv["unit_text"].as_str() {
                let text = text.to_string();
                o["rb"] = json!({"res": resolve(&ctx, &text), "one_token": one_identifier(&text), "conv": eval(&mut ctx, &format!("{text} -> {text}"))});
            }
            let panicked = conv["outcome"] == "panic" || fac["outcome"] == "panic";
            o["conv"] = conv;
            o["fac"] = fac;
            if panicked {
                ctx = prelude_context();   // a panic leaves the session in an undefined state
            }
        }
        out.push(o);
    }
    out
}

fn replay(args: &[String]) -> i32 {
    let cases = read_ndjson(arg(args, "--cases").expect("--cases"));
    let threads = arg_u64(args, "--threads", 12) as usize;
    let chunks: Vec<&[J]> = cases.chunks(cases.len().div_ceil(threads.max(1)).max(1)).collect();
    let results: Vec<Vec<J>> = par_map(&chunks, threads, |c| replay_chunk(c));
    let mut out = Out::new(arg(args, "--out"));
    for r in results.iter().flatten() {
        out.line(r);
    }
    out.flush();
    0
}

// ------------------------------------------------------------------------------------------------
// abs-replay (abstract machine): additions are numbat definitions on a fresh, prelude-free context
//   unit   -> `@metric_prefixes @binary_prefixes @aliases(NAME: ap) unit NAME: Zq`   (one alias per unit)
//   other  -> `let NAME = 3`
//   shadow -> a parameter of a probe function `fn zqf(NAME, ...) = <identifier>` (shadowing exists only in a body)

fn act_code(a: &J) -> String {
    let name = a["name"].as_str().unwrap();
    match a["op"].as_str().unwrap() {
        "unit" => {
            let kinds = a["kinds"].as_str().unwrap();
            format!("{}{}@aliases({name}: {})\nunit {name}: Zq",
                    if kinds == "metric" || kinds == "both" { "@metric_prefixes\n" } else { "" },
                    if kinds == "binary" || kinds == "both" { "@binary_prefixes\n" } else { "" },
                    a["ap"].as_str().unwrap())
        }
        "other" => format!("let {name} = 3"),
        _ => unreachable!(),
    }
}

fn outcome_of(ctx: &mut Context, code: &str) -> String {
    let r = run_input(ctx, code);
    if r.outcome == "ok" { "ok".into() } else { format!("{}:{}", r.outcome, r.kind) }
}

fn abs_case(meta: &J, case: &J) -> J {
    let al = &meta[case["al"].as_str().unwrap()];
    let acts = al["acts"].as_array().unwrap();
    let probes: Vec<&str> = al["probes"].as_array().unwrap().iter().map(|p| p.as_str().unwrap()).collect();
    let mut ctx = new_context(&[], false);
    let r = run_input(&mut ctx, "dimension Zq");
    assert!(r.outcome == "ok");
    let mut add_outcomes = vec![];
    let mut shadows: Vec<&str> = vec![];
    for i in case["adds"].as_array().unwrap() {
        let a = &acts[i.as_u64().unwrap() as usize - 1];
        if a["op"] == "shadow" {
            shadows.push(a["name"].as_str().unwrap());
            add_outcomes.push(json!("-"));
        } else {
            if !shadows.is_empty() {
                return json!({"k": case["k"], "error": "a global addition after a shadowing one cannot be replayed"});
            }
            add_outcomes.push(json!(outcome_of(&mut ctx, &act_code(a))));
        }
    }
    let params = shadows.join(", ");
    // every addition of the alphabet, tried on a copy
    let mut tried = vec![];
    for a in acts {
        let name = a["name"].as_str().unwrap();
        if a["op"] == "shadow" {
            if shadows.contains(&name) {
                tried.push(J::Null);
            } else {
                let ps = if params.is_empty() { name.to_string() } else { format!("{params}, {name}") };
                tried.push(json!(outcome_of(&mut ctx.clone(), &format!("fn zqf({ps}) = 1"))));
            }
        } else if shadows.is_empty() {
            tried.push(json!(outcome_of(&mut ctx.clone(), &act_code(a))));
        } else {
            tried.push(J::Null);
        }
    }
    // the probes
    let mut res = serde_json::Map::new();
    if shadows.is_empty() {
        for id in &probes {
            let r = resolve(&ctx, id);
            if !r.is_null() {
                let mut c = ctx.clone();
                let mut o = json!({"res": r});
                o["conv"] = eval(&mut c, &format!("{id} -> {id}"));
                o["fac"] = eval(&mut c, &format!("1 {id} -> {}", r["alias"].as_str().unwrap()));
                res.insert(id.to_string(), o);
            }
        }
    } else {
        let args = shadows.iter().map(|_| "7").collect::<Vec<_>>().join(", ");
        for id in &probes {
            let mut c = ctx.clone();
            let def = outcome_of(&mut c, &format!("fn zqf({params}) = {id}"));
            let obs = if def != "ok" {
                json!({"is": "none", "why": def})
            } else {
                let v = eval(&mut c, &format!("zqf({args})"));
                let unit = v["unit"].as_array().cloned().unwrap_or_default();
                if !v["ok"].as_bool().unwrap_or(false) || v.get("value").is_none() {
                    json!({"is": "error", "v": v})
                } else if unit.is_empty() {
                    let x: f64 = v["value"].as_str().unwrap().parse().unwrap();
                    json!({"is": if x == 7.0 { "param" } else if x == 3.0 { "var" } else { "error" }})
                } else {
                    json!({"is": "unit", "unit": unit, "value": v["value"]})
                }
            };
            if obs["is"] != "none" {
                res.insert(id.to_string(), obs);
            }
        }
    }
    json!({"k": case["k"], "adds": add_outcomes, "tried": tried, "res": res})
}

fn abs_replay(args: &[String]) -> i32 {
    let meta: J = serde_json::from_str(&std::fs::read_to_string(arg(args, "--meta").expect("--meta")).unwrap()).unwrap();
    let cases = read_ndjson(arg(args, "--cases").expect("--cases"));
    let threads = arg_u64(args, "--threads", 12) as usize;
    let results: Vec<J> = par_map(&cases, threads, |c| abs_case(&meta, c));
    let mut out = Out::new(arg(args, "--out"));
    for r in &results {
        out.line(r);
    }
    out.flush();
    0
}

// ------------------------------------------------------------------------------------------------
// record (J): random collision-prone unit / variable definitions on a fresh context, for Trace_PrefixParser.tla

fn chars_json(s: &str) -> J {
    J::Array(s.chars().map(|c| if c.is_ascii() { json!(c.to_string()) } else { json!(format!("U+{:04X}", c as u32)) }).collect())
}

fn record(args: &[String]) -> i32 {
    let seed = arg_u64(args, "--seed", 1);
    let events = arg_u64(args, "--events", 200) as usize;
    let nprobes = arg_u64(args, "--probes", 24) as usize;
    let spellings: Vec<String> = std::fs::read_to_string(arg(args, "--spellings").expect("--spellings")).unwrap()
        .lines().map(|l| l.trim().to_string()).filter(|l| !l.is_empty()).collect();
    let mut rng = Rng::new(seed);
    let mut ctx = new_context(&[], false);
    assert!(run_input(&mut ctx, "dimension Zq").outcome == "ok");
    let letters: Vec<char> = "madkGiKbluocpnh".chars().collect();
    let mut names: Vec<String> = vec![];        // every name attempted so far (accepted or not)
    let mut out = Out::new(arg(args, "--out"));
    let mut n = 0;
    let mut guard = 0;
    while n < events && guard < events * 50 {
        guard += 1;
        // a name that is likely to collide with what exists
        let name: String = match rng.below(8) {
            0 | 1 => (0..1 + rng.below(3)).map(|_| *rng.pick(&letters)).collect(),
            2 | 3 if !names.is_empty() => format!("{}{}", rng.pick(&spellings), rng.pick(&names)),
            4 if !names.is_empty() => { let x = rng.pick(&names); x.chars().skip(1 + rng.below(2) as usize).collect() }
            5 => rng.pick(&spellings).clone(),
            6 => format!("{}{}", rng.pick(&spellings), rng.pick(&spellings)),
            _ => format!("{}{}", rng.pick(&spellings), (0..1 + rng.below(2)).map(|_| *rng.pick(&letters)).collect::<String>()),
        };
        if name.is_empty() || name.chars().count() > 14 || !one_identifier(&name) {
            continue;
        }
        let is_unit = rng.chance(4, 5);
        let (short, long) = *rng.pick(&[(true, false), (false, true), (true, true), (false, false)]);
        let (metric, binary) = *rng.pick(&[(true, false), (true, false), (false, true), (true, true), (false, false)]);
        let code = if is_unit {
            let ap = match (short, long) { (true, false) => "short", (false, true) => "long", (true, true) => "both", _ => "none" };
            format!("{}{}@aliases({name}: {ap})\nunit {name}: Zq", if metric { "@metric_prefixes\n" } else { "" }, if binary { "@binary_prefixes\n" } else { "" })
        } else {
            format!("let {name} = 3")
        };
        let r = run_input(&mut ctx, &code);
        let ok = r.outcome == "ok";
        if !ok && r.outcome != "nameres" {
            eprintln!("unexpected outcome for {code:?}: {} {} {}", r.outcome, r.kind, r.message);
            return 3;
        }
        if !names.contains(&name) {
            names.push(name.clone());
        }
        // probes: the name itself, the name behind random spellings, other names behind random spellings, tails
        let mut ids: Vec<String> = vec![name.clone()];
        while ids.len() < nprobes {
            let base = if rng.chance(1, 2) { &name } else { rng.pick(&names) };
            let id = match rng.below(6) {
                0 => base.clone(),
                1 => base.chars().skip(1).collect(),
                _ => format!("{}{}", rng.pick(&spellings), base),
            };
            if !id.is_empty() {
                ids.push(id);
            }
        }
        let probes: Vec<J> = ids.iter().map(|id| {
            let r = match numbat::verif::resolve_identifier(&ctx, id) {
                None => json!([]),
                Some((kind, exp, alias, _)) => json!([{"kind": kind, "exp": exp, "alias": chars_json(&alias)}]),
            };
            json!({"id": chars_json(id), "r": r})
        }).collect();
        out.line(&json!({"op": if is_unit { "unit" } else { "other" }, "name": chars_json(&name), "text": name,
                         "short": is_unit && short, "long": is_unit && long, "metric": is_unit && metric, "binary": is_unit && binary,
                         "ok": ok, "probes": probes}));
        n += 1;
    }
    out.flush();
    0
}

fn main() {
    nvh::main_dispatch(&[("dump", dump), ("replay", replay), ("abs-replay", abs_replay), ("record", record)]);
}
