//! C13: unit names and prefixes resolve correctly and uniquely (spec/PrefixParser.tla).
//!   dump         unit table of the prelude (as declared: aliases with accepted prefix forms, metric/binary flags,
//!                canonical name), the other identifiers of the session, and the prefix spellings the real prefix
//!                parser accepts (found behaviourally on probe units, no access to the private table)
//!   replay       (G, real table) resolve every identifier TLC built, evaluate the accepted ones, display and read back
//!   abs-replay   (G, abstract machine) replay TLC's sequences of additions on a fresh context and probe identifiers
//!   record       (J) seeded random unit/variable definitions on a fresh context, recorded for Trace_PrefixParser.tla
use numbat::value::Value;
use numbat::Context;
use nvh::session::{new_context, run_input};
use nvh::util::*;
use serde_json::{json, Value as J};

fn prelude_context() -> Context {
    let mut ctx = new_context(&[], true);
    let r = run_input(&mut ctx, "use prelude");
    if r.outcome != "ok" {
        panic!("cannot load the prelude: {}", r.message);
    }
    ctx
}

fn resolve(ctx: &Context, id: &str) -> J {
    match numbat::verif::resolve_identifier(ctx, id) {
        None => J::Null,
        Some((kind, exp, alias, full)) => json!({"kind": kind, "exp": exp, "alias": alias, "unit": full}),
    }
}

fn factors_json(fs: &[numbat::verif::FactorParts]) -> J {
    J::Array(fs.iter().map(|(name, canon, pk, pe, n, d)| json!({"unit": name, "canon": canon, "kind": pk, "exp": pe, "n": *n as i64, "d": *d as i64})).collect())
}

/// evaluate `code`; for a quantity: value, unit factor list (unsimplified if the code is a conversion), printed text
fn eval(ctx: &mut Context, code: &str) -> J {
    let r = run_input(ctx, code);
    if r.outcome != "ok" {
        return json!({"ok": false, "outcome": r.outcome, "kind": r.kind, "msg": r.message});
    }
    match &r.value {
        Some(Value::Quantity(q)) => {
            let p = numbat::verif::quantity_parts(q);
            json!({"ok": true, "value": format!("{:e}", p.value), "unit": factors_json(&p.unit), "text": r.value.as_ref().unwrap().to_string(),
                   "unit_text": q.unit().to_string()})
        }
        Some(v) => json!({"ok": true, "text": v.to_string(), "nonquantity": true}),
        None => json!({"ok": true, "novalue": true}),
    }
}

// ------------------------------------------------------------------------------------------------
// dump

/// Which spellings does the real prefix parser accept, in which form, with which meaning?  Probe units in a fresh
/// context: `zqs` accepts short prefixes only, `zql` long prefixes only, both metric and binary.
fn observe_prefix_table(candidates: &[String]) -> Vec<J> {
    let mut ctx = new_context(&[], false);
    for code in ["dimension Zq", "@metric_prefixes\n@binary_prefixes\n@aliases(zqs: short)\nunit zqs: Zq",
                 "@metric_prefixes\n@binary_prefixes\n@aliases(zql: long)\nunit zql: Zq"] {
        let r = run_input(&mut ctx, code);
        if r.outcome != "ok" {
            panic!("probe unit definition failed: {code}: {}", r.message);
        }
    }
    let mut out = vec![];
    for c in candidates {
        for (form, probe) in [("short", "zqs"), ("long", "zql")] {
            if let Some((kind, exp, alias, _)) = numbat::verif::resolve_identifier(&ctx, &format!("{c}{probe}")) {
                if alias == probe {
                    out.push(json!({"text": c, "form": form, "kind": kind, "exp": exp}));
                }
            }
        }
    }
    out
}

fn dump(args: &[String]) -> i32 {
    let ctx = prelude_context();
    let mut units = vec![];
    for e in numbat::verif::unit_table(&ctx) {
        units.push(json!({
            "name": e.name, "canonical": e.canonical_name, "canon_short": e.canonical_short, "canon_long": e.canonical_long,
            "metric": e.metric_prefixes, "binary": e.binary_prefixes,
            "aliases": e.aliases.iter().map(|(a, s, l)| json!([a, s, l])).collect::<Vec<_>>(),
        }));
    }
    let mut others: Vec<String> = ctx.variable_names().map(|s| s.to_string()).collect();
    others.extend(ctx.function_names().map(|s| s.to_string()));
    others.sort();
    others.dedup();
    // candidate prefix spellings: the ones the specification states (file, one per line) plus every string of one or
    // two letters (Latin letters, micro sign, Greek mu) - finds short spellings the specification does not know
    let mut cands: Vec<String> = vec![];
    if let Some(p) = arg(args, "--spellings") {
        cands.extend(std::fs::read_to_string(p).unwrap().lines().map(|l| l.trim().to_string()).filter(|l| !l.is_empty()));
    }
    let letters: Vec<char> = ('a'..='z').chain('A'..='Z').chain(['\u{b5}', '\u{3bc}']).collect();
    for a in &letters {
        cands.push(a.to_string());
        for b in &letters {
            cands.push(format!("{a}{b}"));
        }
    }
    cands.sort();
    cands.dedup();
    let prefixes = observe_prefix_table(&cands);
    let mut out = Out::new(arg(args, "--out"));
    out.line(&json!({"units": units, "others": others, "prefixes": prefixes, "candidates": cands.len()}));
    out.flush();
    0
}

fn main() {
    nvh::main_dispatch(&[("dump", dump)]);
}
