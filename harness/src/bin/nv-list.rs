//! C18: replay of List.tla behaviours on real NumbatList handles (G), and recording of random
//! operation sequences for validation by Trace_List.tla (J).
use nvh::util::*;
use numbat::list::NumbatList;
use serde_json::{json, Value as J};

type L = NumbatList<u32>;

struct Impl {
    hs: Vec<Option<L>>,
}

impl Impl {
    fn new(nh: usize) -> Self {
        Impl { hs: (0..nh).map(|_| None).collect() }
    }

    /// apply an operation; returns the result string ("-", "ok", "err", "none", "<elem>") or Err on misuse
    fn apply(&mut self, op: &str, h: usize, g: usize, x: u32) -> Result<String, String> {
        let hi = h.wrapping_sub(1);
        match op {
            "new" => {
                if self.hs[hi].is_some() { return Err("new on live handle".into()); }
                self.hs[hi] = Some(L::new());
                Ok("-".into())
            }
            "clone" => {
                let c = self.hs[hi].as_ref().ok_or("clone of dead handle")?.clone();
                if self.hs[g - 1].is_some() { return Err("clone into live handle".into()); }
                self.hs[g - 1] = Some(c);
                Ok("-".into())
            }
            "drop" => {
                self.hs[hi].take().ok_or("drop of dead handle")?;
                Ok("-".into())
            }
            "tail" => {
                let l = self.hs[hi].as_mut().ok_or("tail of dead handle")?;
                Ok(if l.tail().is_ok() { "ok".into() } else { "err".into() })
            }
            "head" => {
                let l = self.hs[hi].take().ok_or("head of dead handle")?;
                Ok(match l.head() { Some(e) => e.to_string(), None => "none".into() })
            }
            "push_front" => {
                self.hs[hi].as_mut().ok_or("push_front on dead handle")?.push_front(x);
                Ok("-".into())
            }
            "push_back" => {
                self.hs[hi].as_mut().ok_or("push_back on dead handle")?.push_back(x);
                Ok("-".into())
            }
            _ => Err(format!("unknown op {op}")),
        }
    }

    /// observed state of all handles: null for dead handles, else
    /// {abs: contents via iter, len, cls: least handle (1-based) sharing the allocation, el: allocation
    ///  contents, view: null|[s,e], rc: strong count}
    fn observe(&self) -> J {
        let reprs: Vec<Option<(usize, Vec<u32>, Option<(usize, usize)>, usize)>> =
            self.hs.iter().map(|h| h.as_ref().map(|l| l.verif_repr())).collect();
        let mut out = vec![];
        for (i, h) in self.hs.iter().enumerate() {
            match h {
                None => out.push(json!({"live": false})),
                Some(l) => {
                    let r = reprs[i].as_ref().unwrap();
                    let cls = reprs.iter().position(|o| o.as_ref().map(|o| o.0) == Some(r.0)).unwrap() + 1;
                    let abs: Vec<u32> = l.iter().cloned().collect();
                    out.push(json!({
                        "live": true, "abs": abs, "len": l.len(), "empty": l.is_empty(), "cls": cls, "el": r.1,
                        "view": r.2.map(|(s, e)| vec![s, e]).unwrap_or_default(), "rc": r.3
                    }));
                }
            }
        }
        J::Array(out)
    }

    /// pairwise equality matrix over live handles (false for pairs involving a dead handle)
    fn eqs(&self) -> J {
        let n = self.hs.len();
        let mut m = vec![];
        for i in 0..n {
            let mut row = vec![];
            for j in 0..n {
                row.push(match (&self.hs[i], &self.hs[j]) {
                    (Some(a), Some(b)) => J::Bool(a == b),
                    _ => J::Bool(false),
                });
            }
            m.push(J::Array(row));
        }
        J::Array(m)
    }
}

fn strip_exp(exp: &J) -> J {
    // expected handle states carry: abs, cls, el, view, rc
    exp.clone()
}

/// list-replay --nodes <file> --paths <file> --nh N [--level abstract|concrete]
/// nodes: ndjson {id, op, h, g, x, res, hs:[null|{abs,cls,el,view,rc}]}
/// paths: ndjson [id, id, ...] (first id = initial state)
fn replay(args: &[String]) -> i32 {
    let nodes = read_ndjson(arg(args, "--nodes").expect("--nodes"));
    let paths = read_ndjson(arg(args, "--paths").expect("--paths"));
    let nh = arg_u64(args, "--nh", 3) as usize;
    let mut out = Out::new(arg(args, "--out"));
    let mut by_id = std::collections::HashMap::new();
    for n in &nodes {
        by_id.insert(n["id"].as_str().unwrap().to_string(), n);
    }
    let mut steps = 0u64;
    let mut mismatches = 0u64;
    let mut drift = 0u64;
    let mut covered = std::collections::HashSet::new();
    for (pi, p) in paths.iter().enumerate() {
        let ids = p.as_array().unwrap();
        let mut im = Impl::new(nh);
        let mut trace = vec![];
        for step in ids.iter().skip(1) {
            // a step is a node id (the operation is the node's own label) or {id, op, h, g, x, res} (operation of
            // the EDGE taken; the node then only supplies the expected state)
            let (id, ov) = match step {
                J::String(s) => (s.as_str(), None),
                o => (o["id"].as_str().unwrap(), Some(o)),
            };
            let node = by_id[id];
            let merged;
            let n: &J = match ov {
                None => node,
                Some(o) => {
                    let mut m = node.clone();
                    for k in ["op", "h", "g", "x", "res"] { m[k] = o[k].clone(); }
                    merged = m;
                    &merged
                }
            };
            let op = n["op"].as_str().unwrap();
            let (h, g, x) = (n["h"].as_u64().unwrap() as usize, n["g"].as_u64().unwrap() as usize, n["x"].as_u64().unwrap() as u32);
            trace.push(json!([op, h, g, x]));
            let res = std::panic::catch_unwind(std::panic::AssertUnwindSafe(|| im.apply(op, h, g, x)));
            steps += 1;
            covered.insert(id.to_string());
            let res = match res {
                Ok(Ok(r)) => r,
                Ok(Err(e)) => format!("misuse:{e}"),
                Err(_) => "panic".to_string(),
            };
            let obs = im.observe();
            // `bad`: disagreement at the level of the property (abstract sequence semantics);
            // `drift`: the internal representation differs from the one List.tla mirrors (not a
            // violation of C18; reported so the specification can be brought up to date)
            let mut bad = vec![];
            let mut drift_here = vec![];
            if res != n["res"].as_str().unwrap() {
                bad.push(format!("result {} expected {}", res, n["res"]));
            }
            let exp = &n["hs"];
            for i in 0..nh {
                let (o, e) = (&obs[i], &exp[i]);
                if o["live"] != e["live"] {
                    bad.push(format!("handle {} liveness", i + 1));
                    continue;
                }
                if o["live"] == J::Bool(false) { continue; }
                if o["abs"] != e["abs"] {
                    bad.push(format!("handle {} contents: impl {} spec {}", i + 1, o["abs"], e["abs"]));
                }
                for k in ["cls", "el", "view", "rc"] {
                    if o[k] != e[k] {
                        drift_here.push(format!("handle {} field {}: impl {} spec {}", i + 1, k, o[k], e[k]));
                    }
                }
                if o["len"].as_u64() != Some(e["abs"].as_array().unwrap().len() as u64) {
                    bad.push(format!("handle {} len {}", i + 1, o["len"]));
                }
                if o["empty"].as_bool() != Some(e["abs"].as_array().unwrap().is_empty()) {
                    bad.push(format!("handle {} is_empty", i + 1));
                }
            }
            // equality must agree with equality of the abstract sequences
            let eqs = im.eqs();
            for i in 0..nh {
                for j in 0..nh {
                    if exp[i]["live"] == J::Bool(true) && exp[j]["live"] == J::Bool(true) {
                        let want = exp[i]["abs"] == exp[j]["abs"];
                        if eqs[i][j].as_bool() != Some(want) {
                            bad.push(format!("eq({},{}) = {} expected {}", i + 1, j + 1, eqs[i][j], want));
                        }
                    }
                }
            }
            if !drift_here.is_empty() {
                drift += 1;
                if drift <= 3 {
                    out.line(&json!({"kind":"drift","path":pi,"trace":trace,"node":id,"problems":drift_here}));
                }
            }
            if !bad.is_empty() {
                mismatches += 1;
                out.line(&json!({"kind":"mismatch","path":pi,"trace":trace,"node":id,"problems":bad,"observed":obs,"expected":strip_exp(exp)}));
                break;
            }
            if res == "panic" { break; }
        }
    }
    out.line(&json!({"kind":"summary","paths":paths.len(),"steps":steps,"mismatches":mismatches,"drift":drift,"nodes_covered":covered.len()}));
    out.flush();
    0
}

/// list-record --seed S --events N --nh N --maxlen M --out file
/// random operation sequence on real handles; one event per operation with the full observed state
fn record(args: &[String]) -> i32 {
    let seed = arg_u64(args, "--seed", 1);
    let n = arg_u64(args, "--events", 1000);
    let nh = arg_u64(args, "--nh", 3) as usize;
    let maxlen = arg_u64(args, "--maxlen", 6) as usize;
    let nelems = arg_u64(args, "--elems", 2) as u32;
    let mut out = Out::new(arg(args, "--out"));
    let mut rng = Rng::new(seed);
    let mut im = Impl::new(nh);
    let mut k = 0;
    while k < n {
        let h = rng.below(nh as u64) as usize + 1;
        let g = rng.below(nh as u64) as usize + 1;
        let x = rng.below(nelems as u64) as u32 + 1;
        let live = im.hs[h - 1].is_some();
        let ops: &[&str] = if live {
            &["clone", "drop", "tail", "tail", "head", "push_front", "push_front", "push_back", "push_back"]
        } else {
            &["new"]
        };
        let op = *rng.pick(ops);
        if op == "clone" && (im.hs[g - 1].is_some() || g == h) { continue; }
        if (op == "push_front" || op == "push_back")
            && im.hs[h - 1].as_ref().unwrap().verif_repr().1.len() >= maxlen { continue; }
        let (g, x) = match op { "clone" => (g, 0), "push_front" | "push_back" => (0, x), _ => (0, 0) };
        let res = match std::panic::catch_unwind(std::panic::AssertUnwindSafe(|| im.apply(op, h, g, x))) {
            Ok(Ok(r)) => r,
            Ok(Err(e)) => format!("misuse:{e}"),
            Err(_) => "panic".into(),
        };
        out.line(&json!({"op":op,"h":h,"g":g,"x":x,"res":res,"hs":im.observe(),"eq":im.eqs()}));
        k += 1;
        if res == "panic" { break; }
    }
    out.flush();
    0
}

fn main() {
    nvh::main_dispatch(&[("list-replay", replay), ("list-record", record)]);
}
