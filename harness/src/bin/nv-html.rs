//! C20: execution of Html.tla cases on the real HtmlFormatter / HtmlWriter (G), and end-to-end rendering of
//! real numbat inputs (results through HtmlFormatter, diagnostics through codespan `term::emit` into an
//! HtmlWriter) with a recording of every call the diagnostic renderer makes on the writer (J, Trace_Html.tla).
use codespan_reporting::term::{self, Config};
use nvh::session::{classify, new_context};
use nvh::util::*;
use numbat::buffered_writer::BufferedWriter;
use numbat::diagnostic::{ErrorDiagnostic, ResolverDiagnostic};
use numbat::html_formatter::{HtmlFormatter, HtmlWriter};
use numbat::markup::{FormatType, FormattedString, Formatter, Markup, OutputType, PlainTextFormatter};
use numbat::pretty_print::PrettyPrint;
use numbat::resolver::CodeSource;
use numbat::{Context, InterpreterSettings, NumbatError};
use serde_json::{json, Value as J};
use std::io::Write;
use std::sync::{Arc, Mutex};
use termcolor::{Color, ColorSpec, WriteColor};

fn format_type(name: &str) -> Option<FormatType> {
    Some(match name {
        "Whitespace" => FormatType::Whitespace,
        "Emphasized" => FormatType::Emphasized,
        "Dimmed" => FormatType::Dimmed,
        "Text" => FormatType::Text,
        "String" => FormatType::String,
        "Keyword" => FormatType::Keyword,
        "Value" => FormatType::Value,
        "Unit" => FormatType::Unit,
        "Identifier" => FormatType::Identifier,
        "TypeIdentifier" => FormatType::TypeIdentifier,
        "Operator" => FormatType::Operator,
        "Decorator" => FormatType::Decorator,
        _ => return None,
    })
}

fn color_spec(fg: &str, bold: bool) -> ColorSpec {
    let mut spec = ColorSpec::new();
    match fg {
        "red" => { spec.set_fg(Some(Color::Red)); }
        "blue" => { spec.set_fg(Some(Color::Blue)); }
        "other" => { spec.set_fg(Some(Color::Green)); }
        _ => {}
    }
    spec.set_bold(bold);
    spec
}

/// one write() as std::io::Write::write_all would do it, but also for the empty text (one call at least)
fn write_text(w: &mut HtmlWriter, text: &[u8]) -> Result<(), String> {
    let mut rest = text;
    loop {
        let n = w.write(rest).map_err(|e| e.to_string())?;
        if n > rest.len() { return Err(format!("write returned {n} for {} bytes", rest.len())); }
        rest = &rest[n..];
        if rest.is_empty() { return Ok(()); }
        if n == 0 { return Err("write returned 0".into()); }
    }
}

fn run_case(case: &J) -> J {
    let r = std::panic::catch_unwind(std::panic::AssertUnwindSafe(|| -> Result<String, String> {
        match case["k"].as_str().unwrap() {
            "fmt" => {
                let t = format_type(case["t"].as_str().unwrap()).ok_or("unknown format type")?;
                let s = case["s"].as_str().unwrap().to_string();
                let part = FormattedString(OutputType::Normal, t, compact(&s));
                let direct = HtmlFormatter {}.format_part(&part).to_string();
                // the same through Formatter::format on a one-part markup
                let via = HtmlFormatter {}.format(&Markup::from(part), false).to_string();
                if via != direct { return Err(format!("format() {via:?} differs from format_part() {direct:?}")); }
                Ok(direct)
            }
            "wr" => {
                let mut w = HtmlWriter::new();
                for a in case["acts"].as_array().unwrap() {
                    match a["op"].as_str().unwrap() {
                        "set" => w.set_color(&color_spec(a["fg"].as_str().unwrap(), a["bold"].as_bool().unwrap())).map_err(|e| e.to_string())?,
                        "reset" => w.reset().map_err(|e| e.to_string())?,
                        "write" => write_text(&mut w, a["s"].as_str().unwrap().as_bytes())?,
                        o => return Err(format!("unknown op {o}")),
                    }
                }
                w.flush().map_err(|e| e.to_string())?;
                Ok(BufferedWriter::to_string(&w))
            }
            k => Err(format!("unknown case kind {k}")),
        }
    }));
    match r {
        Ok(Ok(out)) => json!({"out": out}),
        Ok(Err(e)) => json!({"error": e}),
        Err(_) => json!({"error": "panic"}),
    }
}

fn compact(s: &str) -> numbat::markup::CompactStrCow {
    numbat::markup::CompactStrCow::Owned(numbat::compact_str::CompactString::from(s))
}

/// html-cases --cases <ndjson> --out <ndjson>
/// case: {k:"fmt", t:<FormatType>, s:<text>} | {k:"wr", acts:[{op:"set",fg,bold}|{op:"reset"}|{op:"write",s}]}
fn cases(args: &[String]) -> i32 {
    let cases = read_ndjson(arg(args, "--cases").expect("--cases"));
    let results: Vec<J> = par_map(&cases, arg_u64(args, "--threads", 16) as usize, run_case);
    let mut out = Out::new(arg(args, "--out"));
    for r in &results {
        out.line(r);
    }
    out.flush();
    0
}

// ------------------------------------------------------------------------------------------------
// end to end

fn chars(s: &str) -> J {
    J::Array(s.chars().map(|c| J::String(c.to_string())).collect())
}

/// forwards everything to a real HtmlWriter and records each call together with what it appended to the buffer
struct Recorder {
    inner: HtmlWriter,
    seen: usize,
    events: Vec<J>,
}

impl Recorder {
    fn new(label: J) -> Self {
        Recorder { inner: HtmlWriter::new(), seen: 0, events: vec![json!({"ev": "new", "at": label})] }
    }
    fn appended(&mut self) -> String {
        let all = BufferedWriter::to_string(&self.inner);
        let app = all.get(self.seen..).unwrap_or("").to_string();
        self.seen = all.len();
        app
    }
}

impl Write for Recorder {
    fn write(&mut self, buf: &[u8]) -> std::io::Result<usize> {
        let n = self.inner.write(buf)?;
        let app = self.appended();
        // codespan writes whole characters; a split character would show up as U+FFFD here and be judged as text
        self.events.push(json!({"ev": "write", "text": chars(&String::from_utf8_lossy(&buf[..n.min(buf.len())])), "app": chars(&app)}));
        Ok(n)
    }
    fn flush(&mut self) -> std::io::Result<()> {
        self.inner.flush()
    }
}

impl WriteColor for Recorder {
    fn supports_color(&self) -> bool {
        self.inner.supports_color()
    }
    fn set_color(&mut self, spec: &ColorSpec) -> std::io::Result<()> {
        let fg = match spec.fg() {
            None => "none",
            Some(Color::Red) => "red",
            Some(Color::Blue) => "blue",
            Some(_) => "other",
        };
        self.events.push(json!({"ev": "set", "fg": fg, "bold": spec.bold()}));
        self.inner.set_color(spec)
    }
    fn reset(&mut self) -> std::io::Result<()> {
        self.events.push(json!({"ev": "reset"}));
        self.inner.reset()
    }
}

fn render_diagnostics(ctx: &Context, error: &dyn ErrorDiagnostic, label: J, trace: &mut Vec<J>) -> J {
    let config = Config::default();
    let files = &ctx.resolver().files;
    let diags = error.diagnostics();
    // the way numbat-wasm renders an error as HTML
    let mut rec = Recorder::new(label);
    for d in &diags {
        if let Err(e) = term::emit(&mut rec, &config, files, d) {
            return json!({"error": format!("emit failed: {e}")});
        }
    }
    let html = BufferedWriter::to_string(&rec.inner);
    // the same diagnostics as plain text
    let mut plain = termcolor::NoColor::new(Vec::<u8>::new());
    for d in &diags {
        let _ = term::emit(&mut plain, &config, files, d);
    }
    let nev = rec.events.len();
    trace.append(&mut rec.events);
    json!({"html": html, "plain": String::from_utf8_lossy(plain.get_ref()), "events": nev, "diagnostics": diags.len()})
}

fn render_markup(what: &str, m: &Markup, indent: bool) -> J {
    json!({"what": what, "indent": indent,
           "html": HtmlFormatter {}.format(m, indent).to_string(),
           "plain": PlainTextFormatter {}.format(m, indent).to_string()})
}

thread_local! {
    static BASE: std::cell::RefCell<Option<Context>> = const { std::cell::RefCell::new(None) };
}

fn base_context() -> Context {
    BASE.with(|b| {
        let mut b = b.borrow_mut();
        if b.is_none() {
            let mut ctx = new_context(&[], true);
            let _ = ctx.interpret("use prelude", CodeSource::Internal).expect("prelude");
            *b = Some(ctx);
        }
        b.as_ref().unwrap().clone()
    })
}

fn e2e_case(case: &J) -> (J, Vec<J>) {
    let mut ctx = base_context();
    let mut trace = vec![];
    let mut steps = vec![];
    for (k, s) in case["steps"].as_array().unwrap().iter().enumerate() {
        let code = s.as_str().unwrap();
        let label = json!([case["id"], k]);
        let r = std::panic::catch_unwind(std::panic::AssertUnwindSafe(|| {
            if let Some(keyword) = code.strip_prefix("info ") {
                let m = ctx.print_info_for_keyword(keyword.trim());
                return json!({"outcome": "ok", "kind": "info", "renders": [render_markup("info", &m, true), render_markup("info", &m, false)]});
            }
            let printed: Arc<Mutex<Vec<Markup>>> = Arc::new(Mutex::new(vec![]));
            let printed2 = printed.clone();
            let mut settings = InterpreterSettings {
                print_fn: Box::new(move |m: &Markup| printed2.lock().unwrap().push(m.clone())),
            };
            match ctx.interpret_with_settings(&mut settings, code, CodeSource::Text).map_err(|b| *b) {
                Ok((statements, result)) => {
                    let mut renders = vec![];
                    for st in &statements {
                        renders.push(render_markup("echo", &st.pretty_print(), false));
                        renders.push(render_markup("echo", &st.pretty_print(), true));
                    }
                    for m in printed.lock().unwrap().iter() {
                        renders.push(render_markup("print", m, false));
                    }
                    let rm = result.to_markup(statements.last(), ctx.dimension_registry(), true, true, &numbat::FormatOptions::default());
                    renders.push(render_markup("result", &rm, false));
                    json!({"outcome": "ok", "kind": "", "renders": renders})
                }
                Err(e) => {
                    let (outcome, kind) = classify(&e);
                    let diag = match &e {
                        NumbatError::ResolverError(e) => render_diagnostics(&ctx, e, label.clone(), &mut trace),
                        NumbatError::NameResolutionError(e) => render_diagnostics(&ctx, e, label.clone(), &mut trace),
                        NumbatError::TypeCheckError(e) => render_diagnostics(&ctx, e, label.clone(), &mut trace),
                        NumbatError::RuntimeError(e) => render_diagnostics(
                            &ctx, &ResolverDiagnostic { resolver: ctx.resolver(), error: e }, label.clone(), &mut trace),
                    };
                    json!({"outcome": outcome, "kind": kind, "msg": e.to_string(), "diag": diag})
                }
            }
        }));
        match r {
            Ok(step) => steps.push(step),
            Err(_) => { steps.push(json!({"outcome": "panic", "kind": "panic"})); break; }
        }
    }
    (json!({"id": case["id"], "steps": steps}), trace)
}

/// html-e2e --cases <ndjson> --out <ndjson> --trace <ndjson>
/// case: {id, steps:[text]}; every step is run in one session (prelude loaded) the way numbat-wasm does it
fn e2e(args: &[String]) -> i32 {
    let cases = read_ndjson(arg(args, "--cases").expect("--cases"));
    let results: Vec<(J, Vec<J>)> = par_map(&cases, arg_u64(args, "--threads", 16) as usize, e2e_case);
    let mut out = Out::new(arg(args, "--out"));
    let mut tr = Out::new(Some(arg(args, "--trace").expect("--trace")));
    for (r, t) in &results {
        out.line(r);
        for e in t {
            tr.line(e);
        }
    }
    out.flush();
    tr.flush();
    0
}

fn main() {
    nvh::main_dispatch(&[("html-cases", cases), ("html-e2e", e2e)]);
}
