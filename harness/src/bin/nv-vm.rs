//! C09 (J direction): runs programs on the real compiler + VM with the opcode trace hook on and writes, per
//! program, a header event with the DECODED program store (hook `vm_program`, taken after the run), one event per
//! executed opcode (state BEFORE the opcode: chunk, ip, stack depth, frame depth, frame pointer, summary of the top of
//! the stack) and an end event (outcome, final stack, result).  `Trace_VM.tla` executes `VM.tla` on the decoded
//! program and must reproduce every event.
use nvh::session::*;
use nvh::util::*;
use numbat::value::{FunctionReference, Value};
use numbat::verif::{VmProgram, VmValSummary};
use serde_json::{json, Value as J};
use std::collections::{BTreeMap, BTreeSet};

/// structural result (same format as nv-eval)
fn value_json(v: &Value) -> J {
    match v {
        Value::Quantity(q) => {
            let p = numbat::verif::quantity_parts(q);
            if p.unit.is_empty() && p.value.fract() == 0.0 && p.value.abs() < 1e15 {
                json!({"k": "int", "v": p.value as i64})
            } else {
                json!({"k": "quantity", "v": q.to_string()})
            }
        }
        Value::Boolean(b) => json!({"k": "bool", "v": b}),
        Value::String(s) => json!({"k": "str", "v": s.to_string()}),
        Value::List(l) => json!({"k": "list", "v": l.iter().map(value_json).collect::<Vec<_>>()}),
        Value::StructInstance(info, fields) => {
            let names: Vec<String> = info.fields.keys().map(|k| k.to_string()).collect();
            json!({"k": "struct", "n": info.name.to_string(),
                   "v": names.iter().zip(fields.iter()).map(|(n, v)| json!({"f": n, "val": value_json(v)})).collect::<Vec<_>>()})
        }
        Value::FunctionReference(FunctionReference::Normal(n)) => json!({"k": "fn", "n": n.to_string()}),
        Value::FunctionReference(r) => json!({"k": "fn", "n": r.to_string()}),
        other => json!({"k": "other", "v": other.to_string()}),
    }
}

fn opq(text: String) -> J {
    json!({"k": "opq", "v": text, "n": ""})
}

/// the small-value text (VM.tla: ShowV)
fn show(s: &VmValSummary) -> String {
    match s {
        VmValSummary::Int(n) => format!("i:{n}"),
        VmValSummary::Quantity(t) => format!("q:{t}"),
        VmValSummary::Bool(b) => format!("b:{b}"),
        VmValSummary::Str(t) => format!("s:{t}"),
        VmValSummary::StrBig(n) => format!("S#{n}"),
        VmValSummary::DateTime(t) => format!("d:{t}"),
        VmValSummary::Fn(kind, name) => format!("{}:{name}", match *kind { "normal" => "f", "foreign" => "F", _ => "z" }),
        VmValSummary::FormatSpecifiers(None) => "x-".to_string(),
        VmValSummary::FormatSpecifiers(Some(t)) => format!("x:{t}"),
        VmValSummary::List(xs) => format!("[{}]", xs.iter().map(show).collect::<Vec<_>>().join(",")),
        VmValSummary::ListBig(n) => format!("L#{n}"),
        VmValSummary::Struct(name, fs) => {
            format!("{name}{{{}}}", fs.iter().map(|(f, v)| format!("{f}={}", show(v))).collect::<Vec<_>>().join(","))
        }
        VmValSummary::StructBig(name, n) => format!("T#{name}#{n}"),
    }
}

/// the value as a record of VM.tla (what the model adopts when it has no rule of its own)
fn tv(s: &VmValSummary) -> J {
    match s {
        VmValSummary::Int(n) => json!({"k": "int", "v": n, "n": ""}),
        VmValSummary::Bool(b) => json!({"k": "bool", "v": b, "n": ""}),
        VmValSummary::Str(t) => json!({"k": "str", "v": t, "n": ""}),
        VmValSummary::Fn(kind, name) => json!({"k": "fn", "v": kind, "n": name}),
        VmValSummary::FormatSpecifiers(None) => json!({"k": "fmt", "v": "", "n": "none"}),
        VmValSummary::FormatSpecifiers(Some(t)) => json!({"k": "fmt", "v": t, "n": "some"}),
        VmValSummary::List(xs) => json!({"k": "list", "v": xs.iter().map(tv).collect::<Vec<_>>(), "n": ""}),
        VmValSummary::Struct(name, fs) => {
            json!({"k": "struct", "v": fs.iter().map(|(f, v)| json!({"f": f, "val": tv(v)})).collect::<Vec<_>>(), "n": name})
        }
        other => opq(show(other)),
    }
}

fn top_fields(top: &Option<VmValSummary>) -> (String, J) {
    match top {
        None => ("-".to_string(), json!({"k": "none", "v": 0, "n": ""})),
        Some(s) => (show(s), tv(s)),
    }
}

struct Traced {
    events: Vec<J>,
    summary: J,
}

/// run `code` on `ctx` with the trace hook on; `before` = decoded program store before the input
/// want_decoded: Some(kp) = also report everything the input added to the program store; its first kp chunks
/// (the chunks of a prefix many programs share) separately
fn trace_program(id: &J, label: &str, ctx: &mut numbat::Context, before: &VmProgram, code: &str, limit: usize, want_decoded: Option<usize>) -> Traced {
    let g0 = before.stack_len;
    let f0 = before.chunks.len();
    let ip0 = before.chunks[0].byte_len;
    numbat::verif::start_vm_trace(limit);
    let r = run_input(ctx, code);
    let (recs, dropped) = numbat::verif::take_vm_trace();
    let after = numbat::verif::vm_program_with_stack(ctx, g0);

    // ---- header: the decoded program store, restricted to what this input added or executed
    // (code: <main> from ip0 on and every chunk that was entered; names: those and every chunk this input added)
    let mut touched: BTreeSet<usize> = recs.iter().map(|r| r.chunk).collect();
    touched.insert(0);
    let mut named: BTreeSet<usize> = touched.clone();
    for i in f0..after.chunks.len() {
        named.insert(i);
    }
    let names_j: Vec<J> = named.iter().map(|&i| json!({"i": i, "n": after.chunks[i].name})).collect();
    let mut consts: BTreeSet<usize> = BTreeSet::new();
    let mut structs: BTreeSet<usize> = BTreeSet::new();
    let mut ffi: BTreeSet<usize> = BTreeSet::new();
    let mut chunks = vec![];
    for &i in &touched {
        let ch = &after.chunks[i];
        let mut code_j = vec![];
        for ins in &ch.code {
            if i == 0 && ins.offset < ip0 {
                continue;
            }
            match ins.op {
                "LoadConstant" => { consts.insert(ins.operands[0] as usize); }
                "BuildStructInstance" => { structs.insert(ins.operands[0] as usize); }
                "FFICallFunction" | "FFICallProcedure" => { ffi.insert(ins.operands[0] as usize); }
                _ => {}
            }
            code_j.push(json!({"o": ins.offset, "op": ins.op, "a": ins.operands}));
        }
        chunks.push(json!({"i": i, "n": ch.name, "len": ch.byte_len, "code": code_j}));
    }
    let consts_j: Vec<J> = consts.iter().map(|&i| {
        let c = &after.constants[i];
        json!({"i": i, "kd": c.kind, "tx": show(&c.value), "tv": tv(&c.value)})
    }).collect();
    let structs_j: Vec<J> = structs.iter().map(|&i| json!({"i": i, "n": after.structs[i].0, "f": after.structs[i].1})).collect();
    let ffi_j: Vec<J> = ffi.iter().map(|&i| json!({"i": i, "n": after.ffi_callables[i]})).collect();
    let (last_text, last_tv) = top_fields(&before.last_result);
    let header = json!({
        "t": "H", "id": id, "label": label, "g0": g0, "ip0": ip0, "c0": before.constants.len(), "f0": f0,
        "s0": before.structs.len(), "a0": before.num_ffi_call_args,
        "haslast": before.last_result.is_some(), "last": last_text, "lasttv": last_tv,
        "top0": before.stack.last().map(show).unwrap_or_else(|| "-".to_string()),
        // a failed input is rolled back by the session (program store included): nothing to decode
        "skip": r.outcome != "ok" && !recs.is_empty(),
        "chunks": chunks, "names": names_j, "consts": consts_j, "structs": structs_j, "ffi": ffi_j,
    });
    // everything this input added to the program store, for the comparison with Compile.tla
    let decoded = if let Some(kp) = want_decoded {
        let split = (f0 + kp).min(after.chunks.len());
        let code_json = |i: usize| -> Vec<J> {
            after.chunks[i].code.iter().filter(|ins| i != 0 || ins.offset >= ip0)
                .map(|ins| json!({"o": ins.offset, "op": ins.op, "a": ins.operands})).collect()
        };
        json!({
            "main": code_json(0),
            "prefix": (f0..split).map(|i| json!({"i": i, "n": after.chunks[i].name, "code": code_json(i)})).collect::<Vec<_>>(),
            "chunks": (split..after.chunks.len()).map(|i| json!({"i": i, "n": after.chunks[i].name, "code": code_json(i)})).collect::<Vec<_>>(),
            "consts": (before.constants.len()..after.constants.len()).map(|i| json!({"i": i, "tx": show(&after.constants[i].value)})).collect::<Vec<_>>(),
            "ffi": (0..after.chunks.len()).filter(|&i| i == 0 || i >= f0).flat_map(|i| after.chunks[i].code.iter()
                    .filter(move |ins| (i != 0 || ins.offset >= ip0) && ins.op.starts_with("FFICall")).map(|ins| ins.operands[0] as usize))
                .collect::<BTreeSet<usize>>().iter().map(|&i| json!({"i": i, "n": after.ffi_callables[i]})).collect::<Vec<_>>(),
        })
    } else {
        J::Null
    };

    // ---- one event per executed opcode
    let mut events = vec![header];
    let mut ops: BTreeMap<&'static str, u64> = BTreeMap::new();
    for rec in &recs {
        let (top, topv) = top_fields(&rec.top);
        *ops.entry(rec.op).or_insert(0) += 1;
        events.push(json!({"t": "O", "f": rec.chunk, "ip": rec.ip, "op": rec.op, "d": rec.stack_depth,
                           "fd": rec.frame_depth, "fp": rec.fp, "top": top, "tv": topv}));
    }

    // ---- end: outcome, final stack (slots g0..), result
    let full = after.stack.len() <= 64;
    let stk: Vec<String> = if full { after.stack.iter().map(show).collect() } else { vec![] };
    let (top, topv) = top_fields(&after.stack.last().cloned());
    let res_text = match &r.value {
        Some(v) => show(&numbat::verif::vm_value_summary(v)),
        None => "-".to_string(),
    };
    events.push(json!({
        "t": "E", "id": id, "out": r.outcome, "kind": r.kind, "trunc": dropped > 0, "d": after.stack_len,
        "fd": after.frames_len, "g": after.num_globals, "ip": after.root_ip, "top": top, "tv": topv, "full": full, "stk": stk,
        "hasres": r.value.is_some(), "res": res_text,
    }));
    let summary = json!({
        "id": id, "label": label, "outcome": r.outcome, "kind": r.kind, "msg": r.message, "value": r.value.as_ref().map(value_json),
        "events": recs.len(), "dropped": dropped, "ops": ops, "decoded": decoded, "skip": r.outcome != "ok" && !recs.is_empty(),
        "base": {"g0": g0, "ip0": ip0, "c0": before.constants.len(), "f0": f0, "s0": before.structs.len(), "a0": before.num_ffi_call_args},
    });
    Traced { events, summary }
}

/// write the traced programs into files of about `per_file` events (whole programs only); returns nothing, the
/// summary lines carry file and first line (1-based) of their header event
fn write_out(dir: &str, prefix: &str, traced: Vec<Traced>, per_file: usize) {
    std::fs::create_dir_all(dir).unwrap();
    let mut summaries = vec![];
    let mut prefixes: std::collections::HashMap<String, usize> = std::collections::HashMap::new();
    let mut k = 0;
    let mut cur: Option<Out> = None;
    let mut cur_name = String::new();
    let mut cur_lines = 0usize;
    for t in traced {
        if cur.is_none() || (cur_lines > 0 && cur_lines + t.events.len() > per_file) {
            if let Some(mut o) = cur.take() { o.flush(); }
            cur_name = format!("{dir}/{prefix}_{k:04}.ndjson");
            cur = Some(Out::new(Some(&cur_name)));
            cur_lines = 0;
            k += 1;
        }
        let mut s = t.summary;
        // a shared prefix is written once: later programs refer to it by key
        if let Some(pre) = s["decoded"].get("prefix").cloned() {
            let text = pre.to_string();
            let n = prefixes.len();
            let key = *prefixes.entry(text).or_insert(n);
            s["decoded"]["prefix_key"] = json!(key);
            if key != n {
                s["decoded"].as_object_mut().unwrap().remove("prefix");
            }
        }
        s["file"] = json!(cur_name);
        s["line"] = json!(cur_lines + 1);
        let o = cur.as_mut().unwrap();
        for e in &t.events { o.line(e); }
        cur_lines += t.events.len();
        summaries.push(s);
    }
    if let Some(mut o) = cur.take() { o.flush(); }
    let mut o = Out::new(Some(&format!("{dir}/{prefix}_summary.ndjson")));
    for s in &summaries { o.line(s); }
    o.flush();
}

/// the program store before the input, with the summary of the topmost stack slot
fn stored_before(ctx: &numbat::Context) -> VmProgram {
    let n = numbat::verif::vm_program(ctx).stack_len;
    numbat::verif::vm_program_with_stack(ctx, n.saturating_sub(1))
}

fn prelude_ctx() -> Option<numbat::Context> {
    let mut base = new_context(&[], true);
    let r = run_input(&mut base, "use prelude");
    if r.outcome != "ok" { eprintln!("prelude: {}", r.message); return None; }
    Some(base)
}

/// vm-trace --cases f --out-dir d [--per-file N] [--limit L] [--threads T]
/// case {id, stmts:[text..], kp: number of chunks of a shared prefix}: the whole program is ONE input (compiled completely, then run) on a clone of the
/// prelude context
fn vm_trace(args: &[String]) -> i32 {
    let cases = read_ndjson(arg(args, "--cases").expect("--cases"));
    let dir = arg(args, "--out-dir").expect("--out-dir");
    let per_file = arg_u64(args, "--per-file", 3000) as usize;
    let limit = arg_u64(args, "--limit", 4000) as usize;
    let threads = arg_u64(args, "--threads", 16) as usize;
    let Some(base) = prelude_ctx() else { return 2 };
    let before = stored_before(&base);
    let traced: Vec<Traced> = par_map(&cases, threads, |c| {
        let stmts: Vec<&str> = c["stmts"].as_array().unwrap().iter().map(|s| s.as_str().unwrap()).collect();
        let code = stmts.join("\n");
        let mut ctx = base.clone();
        trace_program(&c["id"], "", &mut ctx, &before, &code, limit, Some(c["kp"].as_u64().unwrap_or(0) as usize))
    });
    write_out(dir, "gen", traced, per_file);
    0
}

/// vm-examples --dir /repo/examples --out-dir d [--per-file N] [--limit L]: every *.nbt directly in dir and in dir/tests
fn vm_examples(args: &[String]) -> i32 {
    let root = arg(args, "--dir").expect("--dir");
    let dir = arg(args, "--out-dir").expect("--out-dir");
    let per_file = arg_u64(args, "--per-file", 3000) as usize;
    let limit = arg_u64(args, "--limit", 3000) as usize;
    let threads = arg_u64(args, "--threads", 16) as usize;
    let mut files: Vec<String> = vec![];
    for sub in ["", "tests"] {
        let d = if sub.is_empty() { root.to_string() } else { format!("{root}/{sub}") };
        let Ok(rd) = std::fs::read_dir(&d) else { continue };
        let mut fs: Vec<String> = rd.filter_map(|e| e.ok()).map(|e| e.path()).filter(|p| p.extension().map(|x| x == "nbt").unwrap_or(false))
            .map(|p| p.to_string_lossy().to_string()).collect();
        fs.sort();
        files.extend(fs);
    }
    let Some(base) = prelude_ctx() else { return 2 };
    let before = stored_before(&base);
    let items: Vec<(usize, String)> = files.into_iter().enumerate().collect();
    let traced: Vec<Traced> = par_map(&items, threads, |(i, path)| {
        let code = std::fs::read_to_string(path).unwrap_or_default();
        let mut ctx = base.clone();
        let label = path.strip_prefix(root).unwrap_or(path).trim_start_matches('/').to_string();
        trace_program(&json!(i), &label, &mut ctx, &before, &code, limit, None)
    });
    write_out(dir, "ex", traced, per_file);
    0
}

/// vm-ops: names of all opcodes of the Op enum
fn vm_ops(_args: &[String]) -> i32 {
    println!("{}", json!(numbat::verif::vm_op_names()));
    0
}

fn main() {
    nvh::main_dispatch(&[("vm-trace", vm_trace), ("vm-examples", vm_examples), ("vm-ops", vm_ops)]);
}
