//! C15: binding of spec/Printer.tla (the echo rules) to numbat's real pretty-printer, and the
//! round trip of the echo through the real interpreter.
//!
//!   rt-run   --cases f --out f [--threads n]
//!            first line {"setup":[statements]}; then one case per line
//!            {"id":n, "input":text, "probes":[expression texts]?}.
//!            For every case, on a clone of the prelude(+setup) context A: interpret the input; if it is
//!            rejected the case is reported with its outcome (the check counts it as skipped).  Otherwise the
//!            echo (Statement::pretty_print of every checked statement, joined by newlines), the static type
//!            of every statement (hook statement_type_text) and the value are recorded; the ECHO is then
//!            interpreted on a second clone B of the PRE-state: outcome, types, value, names defined, and
//!            the echo of the echo (fixpoint).  Probes are evaluated in both post-states.
//!   j-record --seed n --n n --depth d --out f
//!            seeded random typed expressions (deeper than the G bound) rendered with full parentheses,
//!            executed as above; records the syntax tree of the input as the real parser built it
//!            (hook parse_sexpr, unit identifiers resolved with hook resolve_identifier) for Trace_Printer.tla
//!   probe    stdin: one input per line (`\n` inside a line = newline) -> the observation as JSON
use nvh::session::*;
use nvh::util::*;
use numbat::pretty_print::PrettyPrint;
use numbat::resolver::CodeSource;
use numbat::value::Value;
use numbat::{Context, InterpreterResult, InterpreterSettings};
use serde_json::{json, Value as J};
use std::collections::BTreeSet;
use std::io::BufRead;

// ---------------------------------------------------------------------------------------------
// observation of one interpreted input

struct Obs {
    outcome: String,
    kind: String,
    msg: String,
    echo: Vec<String>,
    types: Vec<J>,
    value: Option<Value>,
    printed: Vec<String>,
}

fn interpret(ctx: &mut Context, code: &str) -> Obs {
    let out: std::sync::Arc<std::sync::Mutex<Vec<String>>> = Default::default();
    let out2 = out.clone();
    let mut settings = InterpreterSettings {
        print_fn: Box::new(move |m: &numbat::markup::Markup| out2.lock().unwrap().push(m.to_string())),
    };
    let r = std::panic::catch_unwind(std::panic::AssertUnwindSafe(|| {
        match ctx.interpret_with_settings(&mut settings, code, CodeSource::Text) {
            Ok((stmts, res)) => {
                let echo: Vec<String> = stmts.iter().map(|s| s.pretty_print().to_string()).collect();
                let types: Vec<J> = stmts.iter().map(|s| match numbat::verif::statement_scheme_text(s) {
                    Some(t) => J::String(t),
                    None => J::Null,
                }).collect();
                let value = match res {
                    InterpreterResult::Value(v) => Some(v),
                    InterpreterResult::Continue => None,
                };
                Obs { outcome: "ok".into(), kind: String::new(), msg: String::new(), echo, types, value, printed: vec![] }
            }
            Err(e) => {
                let (o, k) = classify(&e);
                let msg = std::panic::catch_unwind(std::panic::AssertUnwindSafe(|| e.to_string()))
                    .unwrap_or_else(|_| "<PANIC while rendering the error message>".to_string());
                Obs { outcome: o, kind: k, msg, echo: vec![], types: vec![], value: None, printed: vec![] }
            }
        }
    }));
    let printed = out.lock().unwrap().clone();
    match r {
        Ok(mut o) => {
            o.printed = printed;
            o
        }
        Err(p) => {
            let msg = p.downcast_ref::<String>().cloned().or_else(|| p.downcast_ref::<&str>().map(|s| s.to_string())).unwrap_or_default();
            Obs { outcome: "panic".into(), kind: "panic".into(), msg, echo: vec![], types: vec![], value: None, printed }
        }
    }
}

/// structural description of a value: the f64 magnitude bit for bit, the unit factor by factor
fn value_repr(v: &Value) -> J {
    match v {
        Value::Quantity(q) => {
            let p = numbat::verif::quantity_parts(q);
            json!({"k": "q", "bits": format!("{:016x}", p.value.to_bits()), "num": format!("{:e}", p.value),
                   "unit": p.unit.iter().map(|f| json!([f.0, f.2, f.3, f.4.to_string(), f.5.to_string()])).collect::<Vec<_>>(),
                   // the same quantity over base units (used only where the echo re-associates a product: the unit of the
                   // result may then be another one of the same dimension)
                   "si": format!("{:e}", p.value * p.base_factor),
                   "siunit": p.base_unit.iter().map(|f| json!([f.0, f.2, f.3, f.4.to_string(), f.5.to_string()])).collect::<Vec<_>>()})
        }
        Value::Boolean(b) => json!({"k": "b", "v": b}),
        Value::String(s) => json!({"k": "s", "v": s.to_string()}),
        Value::List(l) => json!({"k": "l", "e": l.iter().map(value_repr).collect::<Vec<_>>()}),
        Value::StructInstance(info, fields) => {
            let names: Vec<String> = info.fields.keys().map(|k| k.to_string()).collect();
            json!({"k": "st", "name": info.name.to_string(),
                   "f": names.iter().zip(fields.iter()).map(|(n, v)| json!([n, value_repr(v)])).collect::<Vec<_>>()})
        }
        Value::FunctionReference(r) => json!({"k": "fn", "v": r.to_string()}),
        Value::DateTime(d) => json!({"k": "dt", "v": format!("{d:?}")}),
        Value::FormatSpecifiers(f) => json!({"k": "fmt", "v": format!("{f:?}")}),
    }
}

fn opt_value(v: &Option<Value>) -> J {
    match v {
        None => J::Null,
        Some(v) => json!({"repr": value_repr(v), "text": v.to_string()}),
    }
}

fn new_names(ctx: &Context, base: &(BTreeSet<String>, BTreeSet<String>, BTreeSet<String>, BTreeSet<String>)) -> J {
    let (v, f, u, d) = names(ctx);
    let diff = |a: &BTreeSet<String>, b: &BTreeSet<String>| a.difference(b).cloned().collect::<Vec<_>>();
    json!({"vars": diff(&v, &base.0), "fns": diff(&f, &base.1), "units": diff(&u, &base.2), "dims": diff(&d, &base.3)})
}

/// value and static type of the variables a definition introduced (raw value and type as the checker stores them;
/// functions, units, dimensions and structs are compared through the probes of the case)
fn defined(ctx: &Context, nn: &J) -> J {
    let mut o = serde_json::Map::new();
    for n in nn["vars"].as_array().unwrap() {
        let n = n.as_str().unwrap();
        let raw = numbat::verif::global_raw(ctx, n).map(|v| value_repr(&v)).unwrap_or(J::Null);
        let ty = match numbat::verif::global_type(ctx, n) {
            None => J::Null,
            Some(Ok(v)) => json!(v.into_iter().map(|(b, n, d)| format!("{b}^{n}/{d}")).collect::<Vec<_>>().join("*")),
            Some(Err(s)) => json!(s),
        };
        o.insert(format!("var:{n}"), json!({"raw": raw, "type": ty}));
    }
    J::Object(o)
}

fn run_probes(ctx: &Context, probes: &[String]) -> J {
    J::Array(probes.iter().map(|p| {
        let mut c = ctx.clone();
        let r = interpret(&mut c, p);
        json!({"outcome": r.outcome, "kind": r.kind, "types": r.types, "value": opt_value(&r.value)})
    }).collect())
}

fn roundtrip(base: &Context, base_names: &(BTreeSet<String>, BTreeSet<String>, BTreeSet<String>, BTreeSet<String>), input: &str, probes: &[String]) -> J {
    let mut a = base.clone();
    let r1 = interpret(&mut a, input);
    let mut o = json!({"outcome": r1.outcome, "kind": r1.kind});
    if r1.outcome != "ok" {
        o["msg"] = json!(r1.msg);
        return o;
    }
    let echo = r1.echo.join("\n");
    o["echo"] = json!(echo);
    o["types"] = json!(r1.types);
    o["value"] = opt_value(&r1.value);
    o["printed"] = json!(r1.printed);
    let n1 = new_names(&a, base_names);
    o["defined"] = defined(&a, &n1);
    o["names"] = n1;
    if !probes.is_empty() {
        o["probes"] = run_probes(&a, probes);
    }
    // the echo, read in the same session state as the input was
    let mut b = base.clone();
    let r2 = interpret(&mut b, &echo);
    let mut e = json!({"outcome": r2.outcome, "kind": r2.kind});
    if r2.outcome != "ok" {
        e["msg"] = json!(r2.msg);
    } else {
        e["echo"] = json!(r2.echo.join("\n"));
        e["types"] = json!(r2.types);
        e["value"] = opt_value(&r2.value);
        e["printed"] = json!(r2.printed);
        let n2 = new_names(&b, base_names);
        e["defined"] = defined(&b, &n2);
        e["names"] = n2;
        if !probes.is_empty() {
            e["probes"] = run_probes(&b, probes);
        }
    }
    o["re"] = e;
    o
}

// ---------------------------------------------------------------------------------------------
// J: seeded random typed expressions over the universe of MC_Printer.tla (deeper than the G bound).
// Trees are JSON arrays in Printer.tla's forms.

fn leaf_num(v: &str) -> J { json!(["num", v]) }
fn id(v: &str) -> J { json!(["id", v]) }
fn call1(f: &str, x: J) -> J { json!(["call", ["id", f], [x]]) }
fn bin(op: &str, l: J, r: J) -> J { json!([op, l, r]) }

/// plain: no unit identifiers and no temperature sugar below this point (used for the callee of a call through a
/// function value: the prefix transformer does not visit callee expressions, so units there are unknown identifiers -
/// a defect outside C15 that would make inputs and repaired echoes fail for an unrelated reason)
fn gen_tree(rng: &mut Rng, sort: &str, depth: u32, plain: bool) -> J {
    let leaf = depth == 0 || rng.chance(1, 5);
    let d1 = depth.saturating_sub(1);
    match sort {
        "n" => {
            if leaf { return if rng.chance(1, 4) { id("zqx") } else { leaf_num(*rng.pick(&["2", "3", "5"])) }; }
            match rng.below(16) {
                0 => json!(["neg", gen_tree(rng, "n", d1, plain)]),
                1 => call1("sqr", gen_tree(rng, "n", d1, plain)),
                2 if !plain => call1(*rng.pick(&["°C", "celsius", "°F"]), gen_tree(rng, "tk", d1, plain)),
                2 => call1("sqr", gen_tree(rng, "n", d1, plain)),
                3 | 4 => bin("mul", gen_tree(rng, "n", d1, plain), gen_tree(rng, "n", d1, plain)),
                5 => bin("div", gen_tree(rng, "n", d1, plain), gen_tree(rng, "n", d1, plain)),
                6 | 7 => bin("add", gen_tree(rng, "n", d1, plain), gen_tree(rng, "n", d1, plain)),
                8 => bin("sub", gen_tree(rng, "n", d1, plain), gen_tree(rng, "n", d1, plain)),
                9 => bin("pow", gen_tree(rng, "n", d1, plain), if rng.chance(1, 2) { leaf_num(*rng.pick(&["2", "3", "5"])) } else { gen_tree(rng, "n", d1.min(1), plain) }),
                10 => bin("conv", gen_tree(rng, "n", d1, plain), gen_tree(rng, "n", d1, plain)),
                11 => bin("div", gen_tree(rng, "d", d1, plain), gen_tree(rng, "d", d1, plain)),
                12 => json!(["if", gen_tree(rng, "b", d1, plain), gen_tree(rng, "n", d1, plain), gen_tree(rng, "n", d1, plain)]),
                13 => call1("str_length", gen_tree(rng, "s", d1, plain)),
                14 => json!(["call", gen_tree(rng, "f", d1, true), [gen_tree(rng, "n", d1, plain)]]),
                _ => json!(["fact", 1 + rng.below(2), leaf_num(*rng.pick(&["2", "3", "5"]))]),
            }
        }
        "d" => {
            if leaf { return match rng.below(if plain { 1 } else { 3 }) { 1 => json!(["unit", "m", "metre"]), 2 => json!(["unit", "cm", "centimetre"]), _ => id("zql") }; }
            match rng.below(12) {
                0 => json!(["neg", gen_tree(rng, "d", d1, plain)]),
                1 | 2 => bin("mul", gen_tree(rng, "n", d1, plain), gen_tree(rng, "d", d1, plain)),
                3 => bin("mul", gen_tree(rng, "d", d1, plain), gen_tree(rng, "n", d1, plain)),
                4 => bin("div", gen_tree(rng, "d", d1, plain), gen_tree(rng, "n", d1, plain)),
                5 | 6 => bin("add", gen_tree(rng, "d", d1, plain), gen_tree(rng, "d", d1, plain)),
                7 => bin("sub", gen_tree(rng, "d", d1, plain), gen_tree(rng, "d", d1, plain)),
                8 => bin("conv", gen_tree(rng, "d", d1, plain), gen_tree(rng, "d", d1, plain)),
                9 => json!(["if", gen_tree(rng, "b", d1, plain), gen_tree(rng, "d", d1, plain), gen_tree(rng, "d", d1, plain)]),
                10 => json!(["field", gen_tree(rng, "st", d1, plain), "a"]),
                _ => call1("head", gen_tree(rng, "l", d1, plain)),
            }
        }
        "x" => match rng.below(8) {
            0 | 1 => bin("pow", gen_tree(rng, "d", d1, plain), leaf_num(*rng.pick(&["2", "3", "5"]))),
            2 => bin("mul", gen_tree(rng, "d", d1, plain), gen_tree(rng, "d", d1, plain)),
            3 => bin("div", gen_tree(rng, "n", d1, plain), gen_tree(rng, "d", d1, plain)),
            4 => call1("sqr", gen_tree(rng, "d", d1, plain)),
            5 => bin("mul", gen_tree(rng, "n", d1, plain), gen_tree(rng, "d", d1, plain)),
            6 if !plain => bin("pow", gen_tree(rng, "tk", d1, plain), leaf_num(*rng.pick(&["2", "3"]))),
            6 => call1("sqr", gen_tree(rng, "d", d1, plain)),
            _ => json!(["neg", bin("mul", gen_tree(rng, "d", d1, plain), gen_tree(rng, "d", d1, plain))]),
        },
        "tk" => {
            if leaf { return call1(*rng.pick(&["from_celsius", "from_fahrenheit"]), gen_tree(rng, "n", 0, plain)); }
            match rng.below(5) {
                0 | 1 => call1(*rng.pick(&["from_celsius", "from_fahrenheit"]), gen_tree(rng, "n", d1, plain)),
                2 => json!(["neg", gen_tree(rng, "tk", d1, plain)]),
                3 => bin("mul", gen_tree(rng, "n", d1, plain), gen_tree(rng, "tk", d1, plain)),
                _ => bin("conv", gen_tree(rng, "tk", d1, plain), gen_tree(rng, "tk", d1, plain)),
            }
        }
        "b" => {
            if leaf { return json!(["bool", *rng.pick(&["true", "false"])]); }
            match rng.below(8) {
                0 => json!(["not", gen_tree(rng, "b", d1, plain)]),
                1 | 2 => bin(*rng.pick(&["lt", "gt", "le", "ge", "eq", "ne"]), gen_tree(rng, "n", d1, plain), gen_tree(rng, "n", d1, plain)),
                3 => bin(*rng.pick(&["lt", "gt", "le", "ge", "eq", "ne"]), gen_tree(rng, "d", d1, plain), gen_tree(rng, "d", d1, plain)),
                4 | 5 => bin("and", gen_tree(rng, "b", d1, plain), gen_tree(rng, "b", d1, plain)),
                6 => bin("or", gen_tree(rng, "b", d1, plain), gen_tree(rng, "b", d1, plain)),
                _ => json!(["if", gen_tree(rng, "b", d1, plain), gen_tree(rng, "b", d1, plain), gen_tree(rng, "b", d1, plain)]),
            }
        }
        "st" => {
            if leaf { return id("zqs"); }
            match rng.below(3) {
                0 | 1 => json!(["mk", "Zqp", [["a", gen_tree(rng, "d", d1, plain)]]]),
                _ => json!(["if", gen_tree(rng, "b", d1, plain), gen_tree(rng, "st", d1, plain), gen_tree(rng, "st", d1, plain)]),
            }
        }
        "f" => {
            if leaf { return id("sqr"); }
            json!(["if", gen_tree(rng, "b", d1, plain), gen_tree(rng, "f", d1, plain), gen_tree(rng, "f", d1, plain)])
        }
        "l" => {
            if rng.chance(1, 2) { json!(["list", [gen_tree(rng, "d", d1, plain)]]) } else { json!(["list", [gen_tree(rng, "d", d1, plain), gen_tree(rng, "d", d1, plain)]]) }
        }
        _ => match rng.below(4) {
            0 => json!(["str", [["fix", ["a"]]]]),
            1 => json!(["str", [["fix", ["x"]], ["ipl", gen_tree(rng, "d", d1, plain), ""], ["fix", ["y"]]]]),
            2 => json!(["str", [["ipl", gen_tree(rng, "n", d1, plain), ":.2f"]]]),
            _ => json!(["str", [["fix", ["q", "\"", " ", "{", "}", "\\"]], ["ipl", gen_tree(rng, "n", d1, plain), ""], ["fix", ["\n"]]]]),
        },
    }
}

fn escape_text(chars: &J) -> String {
    chars.as_array().unwrap().iter().map(|c| match c.as_str().unwrap() {
        "\n" => "\\n".to_string(), "\r" => "\\r".to_string(), "\t" => "\\t".to_string(), "\"" => "\\\"".to_string(),
        "{" => "{{".to_string(), "}" => "}}".to_string(), "\\" => "\\\\".to_string(), c => c.to_string(),
    }).collect()
}

fn ascii_op(tag: &str) -> &'static str {
    match tag {
        "add" => "+", "sub" => "-", "mul" => "*", "div" => "/", "pow" => "^", "conv" => "->", "lt" => "<", "gt" => ">",
        "le" => "<=", "ge" => ">=", "eq" => "==", "ne" => "!=", "and" => "&&", "or" => "||", _ => panic!("operator {tag}"),
    }
}

/// the input text: ASCII, every operand that is not a leaf in parentheses, no sugar
fn render(t: &J) -> String {
    let tag = t[0].as_str().unwrap();
    let opnd = |x: &J| {
        let k = x[0].as_str().unwrap();
        if matches!(k, "num" | "id" | "unit" | "bool" | "str" | "list" | "mk") || (k == "call" && x[1][0] == "id") { render(x) } else { format!("({})", render(x)) }
    };
    match tag {
        "num" | "id" | "bool" | "unit" => t[1].as_str().unwrap().to_string(),
        "str" => format!("\"{}\"", t[1].as_array().unwrap().iter().map(|p| if p[0] == "fix" { escape_text(&p[1]) } else { format!("{{{}{}}}", render(&p[1]), p[2].as_str().unwrap()) }).collect::<String>()),
        "neg" => format!("-{}", opnd(&t[1])),
        "not" => format!("!{}", opnd(&t[1])),
        "fact" => format!("{}{}", opnd(&t[2]), "!".repeat(t[1].as_u64().unwrap() as usize)),
        "call" => format!("{}({})", opnd(&t[1]), t[2].as_array().unwrap().iter().map(render).collect::<Vec<_>>().join(", ")),
        "field" => format!("{}.{}", opnd(&t[1]), t[2].as_str().unwrap()),
        "if" => format!("if {} then {} else {}", opnd(&t[1]), opnd(&t[2]), opnd(&t[3])),
        "list" => format!("[{}]", t[1].as_array().unwrap().iter().map(render).collect::<Vec<_>>().join(", ")),
        "mk" => format!("{} {{ {} }}", t[1].as_str().unwrap(), t[2].as_array().unwrap().iter().map(|f| format!("{}: {}", f[0].as_str().unwrap(), render(&f[1]))).collect::<Vec<_>>().join(", ")),
        op => format!("{} {} {}", opnd(&t[1]), ascii_op(op), opnd(&t[2])),
    }
}

/// the tree as numbat::verif::parse_sexpr writes the parser's syntax tree (units are identifiers there)
fn sexpr(t: &J) -> String {
    let tag = t[0].as_str().unwrap();
    match tag {
        "num" => format!("(num {:?})", t[1].as_str().unwrap().parse::<f64>().unwrap()),
        "id" | "unit" => format!("(id {})", t[1].as_str().unwrap()),
        "bool" => format!("(bool {})", t[1].as_str().unwrap()),
        "str" => format!("(str{})", t[1].as_array().unwrap().iter().map(|p| if p[0] == "fix" {
            format!(" (fixed {:?})", p[1].as_array().unwrap().iter().map(|c| c.as_str().unwrap()).collect::<String>())
        } else if p[2] == "" { format!(" (interp {})", sexpr(&p[1])) } else { format!(" (interp {} {:?})", sexpr(&p[1]), p[2].as_str().unwrap()) }).collect::<String>()),
        "neg" | "not" => format!("({tag} {})", sexpr(&t[1])),
        "fact" => format!("(fact{} {})", t[1], sexpr(&t[2])),
        "call" => format!("(call {}{})", sexpr(&t[1]), t[2].as_array().unwrap().iter().map(|a| format!(" {}", sexpr(a))).collect::<String>()),
        "field" => format!("(field {} {})", sexpr(&t[1]), t[2].as_str().unwrap()),
        "if" => format!("(if {} {} {})", sexpr(&t[1]), sexpr(&t[2]), sexpr(&t[3])),
        "list" => format!("(list{})", t[1].as_array().unwrap().iter().map(|a| format!(" {}", sexpr(a))).collect::<String>()),
        "mk" => format!("(struct {}{})", t[1].as_str().unwrap(), t[2].as_array().unwrap().iter().map(|f| format!(" ({} {})", f[0].as_str().unwrap(), sexpr(&f[1]))).collect::<String>()),
        op => format!("({op} {} {})", sexpr(&t[1]), sexpr(&t[2])),
    }
}

/// the unit leaves of the tree carry the long name the session really resolves them to
fn units_resolve(ctx: &Context, t: &J) -> bool {
    match t {
        J::Array(a) => {
            if a.first().map(|x| x == "unit").unwrap_or(false) {
                let long = match numbat::verif::resolve_identifier(ctx, a[1].as_str().unwrap()) {
                    Some((_, pe, _, full)) => format!("{}{}", match pe { 0 => "", -2 => "centi", -3 => "milli", 3 => "kilo", _ => "?" }, full),
                    None => return false,
                };
                return a[2] == long.as_str();
            }
            a.iter().all(|x| units_resolve(ctx, x))
        }
        _ => true,
    }
}

fn j_record(args: &[String]) -> i32 {
    let seed = arg_u64(args, "--seed", 1);
    let n = arg_u64(args, "--n", 1000) as usize;
    let depth = arg_u64(args, "--depth", 5) as u32;
    let threads = arg_u64(args, "--threads", 16) as usize;
    let setup: Vec<String> = arg(args, "--setup").map(|s| s.split(";;").map(|x| x.to_string()).collect()).unwrap_or_default();
    let base = match base_context(&setup) {
        Ok(b) => b,
        Err(e) => {
            eprintln!("{e}");
            return 2;
        }
    };
    let bn = names(&base);
    let mut rng = Rng::new(seed);
    let sorts = ["n", "d", "x", "tk", "b", "st", "l", "s"];
    let trees: Vec<J> = (0..n).map(|_| { let s = *rng.pick(&sorts); let d = 2 + rng.below(depth as u64 - 1) as u32; gen_tree(&mut rng, s, d, false) }).collect();
    let results: Vec<J> = par_map(&trees, threads, |t| {
        let input = render(t);
        let mut o = roundtrip(&base, &bn, &input, &[]);
        o["tree"] = t.clone();
        o["input"] = json!(input);
        // the generator's tree is the tree the real parser builds for the text, and its unit leaves are units
        let parsed = numbat::verif::parse_sexpr(&input);
        o["tree_is_parse"] = json!(matches!(&parsed, Ok(v) if v.len() == 1 && v[0] == sexpr(t)) && units_resolve(&base, t));
        if o["tree_is_parse"] == false { o["parsed"] = json!(format!("{parsed:?}")); o["sexpr"] = json!(sexpr(t)); }
        o
    });
    let mut out = Out::new(arg(args, "--out"));
    for r in &results {
        out.line(r);
    }
    out.flush();
    0
}

fn base_context(setup: &[String]) -> Result<Context, String> {
    let mut base = new_context(&[], true);
    let r = run_input(&mut base, "use prelude");
    if r.outcome != "ok" {
        return Err(format!("prelude: {}", r.message));
    }
    for s in setup {
        let r = run_input(&mut base, s);
        if r.outcome != "ok" {
            return Err(format!("setup statement {s:?} failed: {}", r.message));
        }
    }
    Ok(base)
}

fn strings(j: &J) -> Vec<String> {
    j.as_array().map(|a| a.iter().map(|s| s.as_str().unwrap().to_string()).collect()).unwrap_or_default()
}

fn rt_run(args: &[String]) -> i32 {
    let cases = read_ndjson(arg(args, "--cases").expect("--cases"));
    let threads = arg_u64(args, "--threads", 16) as usize;
    let base = match base_context(&strings(&cases[0]["setup"])) {
        Ok(b) => b,
        Err(e) => {
            eprintln!("{e}");
            return 2;
        }
    };
    let bn = names(&base);
    let results: Vec<J> = par_map(&cases[1..], threads, |c| {
        let mut o = roundtrip(&base, &bn, c["input"].as_str().unwrap(), &strings(&c["probes"]));
        o["id"] = c["id"].clone();
        o
    });
    let mut out = Out::new(arg(args, "--out"));
    for r in &results {
        out.line(r);
    }
    out.flush();
    0
}

fn probe(args: &[String]) -> i32 {
    let setup: Vec<String> = arg(args, "--setup").map(|s| s.split(";;").map(|x| x.to_string()).collect()).unwrap_or_default();
    let base = match base_context(&setup) {
        Ok(b) => b,
        Err(e) => {
            eprintln!("{e}");
            return 2;
        }
    };
    let bn = names(&base);
    for line in std::io::stdin().lock().lines() {
        let line = line.unwrap().replace("\\n", "\n");
        if line.trim().is_empty() {
            continue;
        }
        let o = roundtrip(&base, &bn, &line, &[]);
        if has_flag(args, "--json") {
            println!("{o}");
        } else {
            println!("IN    {line:?}");
            if o["outcome"] != "ok" {
                println!("  -> {} {} {}", o["outcome"], o["kind"], o["msg"]);
                continue;
            }
            println!("ECHO  {}   :: {}  = {}", o["echo"], o["types"], o["value"]["text"]);
            let e = &o["re"];
            if e["outcome"] != "ok" {
                println!("  RE-READ REJECTED: {} {} {}", e["outcome"], e["kind"], e["msg"]);
            } else {
                println!("RE    {}   :: {}  = {}{}{}{}", e["echo"], e["types"], e["value"]["text"],
                         if e["echo"] != o["echo"] { "   [NOT A FIXPOINT]" } else { "" },
                         if e["types"] != o["types"] { "   [TYPE DIFFERS]" } else { "" },
                         if e["value"]["repr"] != o["value"]["repr"] || e["defined"] != o["defined"] { "   [VALUE DIFFERS]" } else { "" });
            }
        }
    }
    0
}

fn main() {
    nvh::main_dispatch(&[("rt-run", rt_run), ("j-record", j_record), ("probe", probe)]);
}
