//! Units / quantities (C03, C04, C05, C11, C12, C21): dump of the unit table of the current tree and
//! evaluation of generated quantity expressions with full structural observation of the results.
use nvh::session::*;
use nvh::util::*;
use numbat::value::Value;
use numbat::Context;
use serde_json::{json, Value as J};

fn prelude_ctx() -> Result<Context, String> {
    let mut ctx = new_context(&[], true);
    let r = run_input(&mut ctx, "use prelude");
    if r.outcome != "ok" { return Err(format!("prelude: {}", r.message)); }
    Ok(ctx)
}

fn factor_json(f: &numbat::verif::FactorParts) -> J {
    json!({"unit": f.0, "canon": f.1, "pk": f.2, "pe": f.3, "n": f.4.to_string(), "d": f.5.to_string()})
}

/// dump: the complete unit table (direct definitions) as JSON on stdout
fn dump(_args: &[String]) -> i32 {
    let ctx = match prelude_ctx() { Ok(c) => c, Err(e) => { eprintln!("{e}"); return 2; } };
    let table = numbat::verif::unit_table(&ctx);
    let units: Vec<J> = table.iter().map(|e| json!({
        "name": e.name, "canon": e.canonical_name, "canon_short": e.canonical_short, "canon_long": e.canonical_long,
        "aliases": e.aliases.iter().map(|(a, s, l)| json!([a, s, l])).collect::<Vec<_>>(),
        "metric": e.metric_prefixes, "binary": e.binary_prefixes, "is_base": e.is_base,
        "factor": format!("{:e}", e.factor), "def": e.defining_unit.iter().map(factor_json).collect::<Vec<_>>(),
        "dim": e.dimension.iter().map(|(b, n, d)| json!([b, n.to_string(), d.to_string()])).collect::<Vec<_>>(),
    })).collect();
    println!("{}", json!({"units": units}));
    0
}


fn value_json(v: &Value) -> J {
    match v {
        Value::Quantity(q) => {
            let p = numbat::verif::quantity_parts(q);
            json!({"k": "q", "value": format!("{:e}", p.value), "unit": p.unit.iter().map(factor_json).collect::<Vec<_>>(),
                   "can_simplify": p.can_simplify, "base": p.base_unit.iter().map(factor_json).collect::<Vec<_>>(),
                   "base_factor": format!("{:e}", p.base_factor), "text": q.to_string()})
        }
        Value::Boolean(b) => json!({"k": "bool", "value": b}),
        Value::List(l) => json!({"k": "list", "elems": l.iter().map(value_json).collect::<Vec<_>>()}),
        other => json!({"k": "other", "text": other.to_string()}),
    }
}

/// eval --cases f --out f: each case {id, exprs: [text...]}; evaluates every expression on ONE shared prelude
/// context per thread chunk as `let v_q = <expr>` and reports the RAW value bound to v_q (unsimplified) and the
/// displayed (simplified) value of the same expression.
fn eval(args: &[String]) -> i32 {
    let cases = read_ndjson(arg(args, "--cases").expect("--cases"));
    let threads = arg_u64(args, "--threads", 16) as usize;
    let base = match prelude_ctx() { Ok(c) => c, Err(e) => { eprintln!("{e}"); return 2; } };
    let n = cases.len();
    let chunk = n.div_ceil(threads.max(1)).max(1);
    let chunks: Vec<&[J]> = cases.chunks(chunk).collect();
    let results: Vec<Vec<J>> = par_map(&chunks, threads, |ch| {
        let mut ctx = base.clone();
        let mut used = 0usize;
        ch.iter().map(|c| {
            // a session's constant table is finite (65 535 entries; C08's finding): take a new copy now and then
            used += 1;
            if used % 200 == 0 { ctx = base.clone(); }
            let mut outs = vec![];
            for e in c["exprs"].as_array().unwrap() {
                let text = e.as_str().unwrap();
                let r = run_input(&mut ctx, &format!("let v_q = {text}"));
                if r.outcome != "ok" {
                    outs.push(json!({"outcome": r.outcome, "kind": r.kind, "msg": r.message}));
                    if r.outcome == "panic" { ctx = base.clone(); }   // a panic leaves the session in an undefined state
                    continue;
                }
                let raw = numbat::verif::global_raw(&ctx, "v_q").map(|v| value_json(&v)).unwrap_or(J::Null);
                let mut o = json!({"outcome": "ok", "raw": raw});
                if c["shown"].as_bool().unwrap_or(false) {
                    let r2 = run_input(&mut ctx, text);
                    o["shown"] = match &r2.value { Some(v) => value_json(v), None => J::Null };
                    o["shown_outcome"] = json!(r2.outcome);
                    if r2.outcome == "panic" {
                        o["shown_msg"] = json!(r2.message);
                        ctx = base.clone();
                        outs.push(o);
                        continue;
                    }
                }
                if c["texts"].as_bool().unwrap_or(false) {
                    // the same value through string interpolation and through print
                    let r3 = run_input(&mut ctx, &format!("\"{{{text}}}\""));
                    o["interp"] = match &r3.value { Some(Value::String(s)) => json!(s.to_string()), _ => J::Null };
                    let r4 = run_input(&mut ctx, &format!("print({text})"));
                    o["printed"] = json!(r4.out);
                }
                outs.push(o);
            }
            json!({"id": c["id"], "results": outs})
        }).collect()
    });
    let mut out = Out::new(arg(args, "--out"));
    for r in results.iter().flatten() { out.line(r); }
    out.flush();
    0
}

/// assert-run --cases f --out f: each case {id, code, marker}: the code (assertion + marker statements) is run as ONE
/// input on a shared prelude context; reports outcome kind, printed lines and whether the marker variable exists
/// afterwards and whether the session's variable list is otherwise unchanged.
fn assert_run(args: &[String]) -> i32 {
    let cases = read_ndjson(arg(args, "--cases").expect("--cases"));
    let threads = arg_u64(args, "--threads", 16) as usize;
    let base = match prelude_ctx() { Ok(c) => c, Err(e) => { eprintln!("{e}"); return 2; } };
    let chunk = cases.len().div_ceil(threads.max(1)).max(1);
    let chunks: Vec<&[J]> = cases.chunks(chunk).collect();
    let results: Vec<Vec<J>> = par_map(&chunks, threads, |ch| {
        let mut ctx = base.clone();
        let mut used = 0usize;
        ch.iter().map(|c| {
            used += 1;
            if used % 200 == 0 { ctx = base.clone(); }
            let marker = c["marker"].as_str().unwrap();
            let before: std::collections::BTreeSet<String> = ctx.variable_names().map(|s| s.to_string()).collect();
            let r = run_input(&mut ctx, c["code"].as_str().unwrap());
            let after: std::collections::BTreeSet<String> = ctx.variable_names().map(|s| s.to_string()).collect();
            let new: Vec<String> = after.difference(&before).cloned().collect();
            json!({"id": c["id"], "outcome": r.outcome, "kind": r.kind, "msg": r.message, "out": r.out,
                   "defined": after.contains(marker), "new_names": new})
        }).collect()
    });
    let mut out = Out::new(arg(args, "--out"));
    for r in results.iter().flatten() { out.line(r); }
    out.flush();
    0
}

fn main() {
    nvh::main_dispatch(&[("dump", dump), ("eval", eval), ("assert-run", assert_run)]);
}
