//! C19 - date and time arithmetic.  Executes date-time operations on a real prelude-loaded numbat Context and
//! records one event per operation in the vocabulary of spec/DateTime.tla: instants as limbs
//! [days since 1970-01-01, second of day, nanosecond], durations as sign + magnitude limbs
//! [days, seconds, nanoseconds, attoseconds] obtained by decomposing the f64 seconds EXACTLY.
//!
//!   run    --cases f --out f [--local-tz Z]      G: the cases enumerated by MC_DateTime.tla
//!   record --seed n --events n --out f [--local-tz Z]   J: seeded random instants / durations / IANA zones
//!   probe  (stdin: one numbat input per line)    debugging aid
//!
//! Date-time values are built from literals whose text the harness computes itself from the limbs
//! (proleptic Gregorian calendar, own code) and are read back exactly from `Value::DateTime`
//! (jiff::Zoned -> timestamp nanoseconds).
use nvh::session::*;
use nvh::util::*;
use numbat::value::Value;
use numbat::Context;
use serde_json::{json, Value as J};

const SPD: i128 = 86400;
const NS: i128 = 1_000_000_000;
const MIN_T: [i64; 3] = [-4371586, 7199, 0];
const MAX_T: [i64; 3] = [2932895, 79200, 999_999_999];

fn prelude_ctx() -> Result<Context, String> {
    let mut ctx = new_context(&[], true);
    let r = run_input(&mut ctx, "use prelude");
    if r.outcome != "ok" { return Err(format!("prelude: {}", r.message)); }
    Ok(ctx)
}

fn set_local_tz(args: &[String]) -> String {
    let tz = arg(args, "--local-tz").unwrap_or("UTC").to_string();
    // before any thread exists and before jiff looks at the environment
    unsafe { std::env::set_var("TZ", &tz) };
    tz
}

// ------------------------------------------------------------------------------------------------
// limbs

fn instant_limbs(z: &jiff::Zoned) -> [i64; 3] {
    let n: i128 = z.timestamp().as_nanosecond();
    let day_ns = SPD * NS;
    let d = n.div_euclid(day_ns);
    let r = n.rem_euclid(day_ns);
    [d as i64, (r / NS) as i64, (r % NS) as i64]
}

fn total_ns(t: &[i64; 3]) -> i128 {
    (t[0] as i128 * SPD + t[1] as i128) * NS + t[2] as i128
}

fn from_total_ns(n: i128) -> [i64; 3] {
    let day_ns = SPD * NS;
    let d = n.div_euclid(day_ns);
    let r = n.rem_euclid(day_ns);
    [d as i64, (r / NS) as i64, (r % NS) as i64]
}

/// exact decomposition of f64 seconds: (finite and below 10^8 days, sign, [days, seconds, ns, floor(attoseconds)])
fn dur_limbs(x: f64) -> (bool, i64, [i64; 4]) {
    let sg = if x < 0.0 { -1 } else { 1 };
    if !x.is_finite() || x.abs() >= 8.64e12 {
        return (false, sg, [100_000_000, 0, 0, 0]);
    }
    let ax = x.abs();
    let whole = ax.trunc();
    let frac = ax - whole; // exact
    let w = whole as u64;
    let bits = frac.to_bits();
    let exp = ((bits >> 52) & 0x7ff) as i32;
    let mant: u128 = if exp == 0 { (bits & ((1u64 << 52) - 1)) as u128 } else { ((bits & ((1u64 << 52) - 1)) | (1u64 << 52)) as u128 };
    let e: i32 = if exp == 0 { 1074 } else { 1075 - exp }; // frac = mant * 2^-e
    let atto: u128 = if e >= 128 { 0 } else if e <= 0 { 0 } else { (mant * 1_000_000_000_000_000_000u128) >> e };
    let m = [(w / 86400) as i64, (w % 86400) as i64, (atto / 1_000_000_000) as i64, (atto % 1_000_000_000) as i64];
    let sg = if m == [0, 0, 0, 0] { 1 } else { sg };
    (true, sg, m)
}

fn dur_json(x: f64) -> (bool, J) {
    let (fin, sg, m) = dur_limbs(x);
    (fin, json!({"sg": sg, "m": m}))
}

fn t_of(v: &J) -> [i64; 3] {
    let a = v.as_array().expect("instant");
    [a[0].as_i64().unwrap(), a[1].as_i64().unwrap(), a[2].as_i64().unwrap()]
}

// ------------------------------------------------------------------------------------------------
// proleptic Gregorian calendar (own code: the literal texts do not come from jiff)

fn civil_from_days(z0: i64) -> (i64, i64, i64) {
    let z = z0 + 719468;
    let era = z.div_euclid(146097);
    let doe = z.rem_euclid(146097);
    let yoe = (doe - doe / 1460 + doe / 36524 - doe / 146096) / 365;
    let doy = doe - (365 * yoe + yoe / 4 - yoe / 100);
    let mp = (5 * doy + 2) / 153;
    let d = doy - (153 * mp + 2) / 5 + 1;
    let m = if mp < 10 { mp + 3 } else { mp - 9 };
    (yoe + era * 400 + if m <= 2 { 1 } else { 0 }, m, d)
}

/// literal text of the instant (UTC); `form` picks one of the accepted spellings
fn literal(t: &[i64; 3], form: u64) -> String {
    let (y, mo, d) = civil_from_days(t[0]);
    let (h, mi, s) = (t[1] / 3600, (t[1] % 3600) / 60, t[1] % 60);
    let frac = if t[2] == 0 { String::new() } else { format!(".{:09}", t[2]) };
    let y4 = if y < 0 { format!("-{:04}", -y) } else { format!("{:04}", y) };
    match form {
        // RFC 3339, "Z"
        0 => format!("{y4}-{mo:02}-{d:02}T{h:02}:{mi:02}:{s:02}{frac}Z"),
        // documented `%Y-%m-%d %H:%M:%S%.f` + UTC offset
        1 => format!("{y4}-{mo:02}-{d:02} {h:02}:{mi:02}:{s:02}{frac} +0000"),
        // documented `%Y/%m/%d %H:%M:%S%.f` + zone name
        2 => format!("{y4}/{mo:02}/{d:02} {h:02}:{mi:02}:{s:02}{frac} UTC"),
        // RFC 9557 (what `Value::DateTime` displays as), six-digit signed years outside 0..9999
        _ => {
            let y6 = if y < 0 { format!("-{:06}", -y) } else { format!("{:04}", y) };
            format!("{y6}-{mo:02}-{d:02}T{h:02}:{mi:02}:{s:02}{frac}+00:00[UTC]")
        }
    }
}

const FORMATS: [(&str, &str); 5] = [
    ("ymd-space-z", "%Y-%m-%d %H:%M:%S%.f %z"),
    ("ymd-slash-z", "%Y/%m/%d %H:%M:%S%.f %z"),
    ("rfc3339", "%Y-%m-%dT%H:%M:%S%.f%:z"),
    ("rfc9557", "%Y-%m-%dT%H:%M:%S%.f%:z[%Q]"),
    // the 12-hour form as the book documents it (date-and-time.md, "Date time formats")
    ("ymd-12h-z", "%Y-%m-%d %I:%M:%S%.f %p %z"),
];

/// scan a displayed full-precision text into [year, month, day, hour, minute, second, ns, offset seconds]
fn scan_fields(text: &str) -> Option<[i64; 8]> {
    let b: Vec<char> = text.chars().collect();
    let mut i = 0usize;
    let num = |i: &mut usize, maxlen: usize| -> Option<(i64, usize)> {
        let st = *i;
        let mut v: i64 = 0;
        while *i < b.len() && b[*i].is_ascii_digit() && *i - st < maxlen {
            v = v * 10 + b[*i].to_digit(10).unwrap() as i64;
            *i += 1;
        }
        if *i == st { None } else { Some((v, *i - st)) }
    };
    let mut ysign = 1;
    if i < b.len() && (b[i] == '-' || b[i] == '+') { if b[i] == '-' { ysign = -1; } i += 1; }
    let (y, _) = num(&mut i, 6)?;
    if i >= b.len() || !(b[i] == '-' || b[i] == '/') { return None; }
    i += 1;
    let (mo, _) = num(&mut i, 2)?;
    if i >= b.len() || !(b[i] == '-' || b[i] == '/') { return None; }
    i += 1;
    let (d, _) = num(&mut i, 2)?;
    if i >= b.len() || !(b[i] == ' ' || b[i] == 'T') { return None; }
    i += 1;
    let (mut h, _) = num(&mut i, 2)?;
    if i >= b.len() || b[i] != ':' { return None; }
    i += 1;
    let (mi, _) = num(&mut i, 2)?;
    if i >= b.len() || b[i] != ':' { return None; }
    i += 1;
    let (s, _) = num(&mut i, 2)?;
    let mut ns = 0i64;
    if i < b.len() && b[i] == '.' {
        i += 1;
        let (f, n) = num(&mut i, 9)?;
        ns = f * 10i64.pow(9 - n as u32);
    }
    // optional " AM" / " PM"
    if i + 2 < b.len() && b[i] == ' ' && (b[i + 1] == 'A' || b[i + 1] == 'P') && b[i + 2] == 'M' {
        let pm = b[i + 1] == 'P';
        if !(1..=12).contains(&h) { return None; }
        h = (h % 12) + if pm { 12 } else { 0 };
        i += 3;
    }
    if i < b.len() && b[i] == ' ' { i += 1; }
    if i >= b.len() || !(b[i] == '-' || b[i] == '+') { return None; }
    let osign = if b[i] == '-' { -1 } else { 1 };
    i += 1;
    let (oh, _) = num(&mut i, 2)?;
    if i < b.len() && b[i] == ':' { i += 1; }
    let (om, _) = num(&mut i, 2)?;
    let mut os = 0;
    if i < b.len() && (b[i] == ':' || b[i].is_ascii_digit()) {
        if b[i] == ':' { i += 1; }
        os = num(&mut i, 2)?.0;
    }
    if i < b.len() && b[i] != '[' { return None; }
    Some([ysign * y, mo, d, h, mi, s, ns, osign * (oh * 3600 + om * 60 + os)])
}

// ------------------------------------------------------------------------------------------------
// running operations

struct Obs {
    cls: String,
    err: String,
    msg: String,
    value: Option<Value>,
}

fn eval(ctx: &mut Context, code: &str) -> Obs {
    let r = run_input(ctx, code);
    let cls = match r.outcome.as_str() { "ok" => "ok", "runtime" => "runtime", "panic" => "panic", _ => "other" };
    let err = if cls == "ok" { String::new() } else if cls == "other" { format!("{}:{}", r.outcome, r.kind) } else { r.kind.clone() };
    Obs { cls: cls.into(), err, msg: r.message.chars().take(300).collect(), value: r.value }
}

fn global(ctx: &Context, name: &str) -> Option<Value> {
    numbat::verif::global_raw(ctx, name)
}

/// fields every event has
fn base_event(op: &str, id: &J, text: &str, o: &Obs) -> J {
    json!({"op": op, "id": id, "text": text, "cls": o.cls, "err": o.err, "msg": o.msg})
}

fn with_instant(mut ev: J, o: &Obs) -> J {
    match (&o.cls[..], &o.value) {
        ("ok", Some(Value::DateTime(z))) => {
            ev["out"] = json!(instant_limbs(z));
            ev["oz"] = json!(z.time_zone().iana_name().unwrap_or("?"));
        }
        ("ok", _) => {
            ev["cls"] = json!("other");
            ev["err"] = json!("result is not a DateTime");
            ev["out"] = json!([0, 0, 0]);
            ev["oz"] = json!("");
        }
        _ => {
            ev["out"] = json!([0, 0, 0]);
            ev["oz"] = json!("");
        }
    }
    ev
}

fn with_duration(mut ev: J, o: &Obs) -> J {
    let zero = json!({"sg": 1, "m": [0, 0, 0, 0]});
    match (&o.cls[..], &o.value) {
        ("ok", Some(Value::Quantity(q))) => {
            let secs = q.to_base_unit_representation().unsafe_value().to_f64();
            let (fin, d) = dur_json(secs);
            ev["x"] = d;
            ev["xf"] = json!(format!("{secs:e}"));
            ev["xunit"] = json!(q.unit().to_string());
            if !fin {
                ev["cls"] = json!("other");
                ev["err"] = json!("difference is not finite");
            }
        }
        ("ok", _) => {
            ev["cls"] = json!("other");
            ev["err"] = json!("result is not a quantity");
            ev["x"] = zero;
        }
        _ => { ev["x"] = zero; }
    }
    ev
}

/// `let zq_t = datetime("<literal>") -> tz("<zone>")`; returns the make event and whether the value is usable
fn make_instant(ctx: &mut Context, id: &J, name: &str, t: &[i64; 3], zone: &str, form: u64) -> (J, bool) {
    let code = format!("let {name} = datetime(\"{}\") -> tz(\"{zone}\")", literal(t, form));
    let mut o = eval(ctx, &code);
    if o.cls == "ok" { o.value = global(ctx, name); }
    let mut ev = with_instant(base_event("make", id, &code, &o), &o);
    ev["t"] = json!(t);
    ev["z"] = json!(zone);
    let good = ev["cls"] == "ok" && t_of(&ev["out"]) == *t;
    (ev, good)
}

/// `let zq_d = <duration expression>`; the f64 seconds the VM will see (raw, unsimplified global)
fn make_duration(ctx: &mut Context, dtext: &str) -> Result<f64, String> {
    let o = eval(ctx, &format!("let zq_d = {dtext}"));
    if o.cls != "ok" { return Err(format!("{} {} {}", o.cls, o.err, o.msg)); }
    match global(ctx, "zq_d") {
        Some(Value::Quantity(q)) => Ok(q.to_base_unit_representation().unsafe_value().to_f64()),
        _ => Err("not a quantity".into()),
    }
}

fn arith_ops(ctx: &mut Context, id: &J, t: &[i64; 3], z: &str, secs: f64, dtext: &str, ops: &[String], out: &mut Vec<J>) {
    let (fin, d) = dur_json(secs);
    for op in ops {
        let (code, is_dur) = match op.as_str() {
            "add" => ("zq_t + zq_d", false),
            "sub" => ("zq_t - zq_d", false),
            "add_diff" => ("(zq_t + zq_d) - zq_t", true),
            "sub_diff" => ("(zq_t - zq_d) - zq_t", true),
            "add_sub" => ("(zq_t + zq_d) - zq_d", false),
            "sub_add" => ("(zq_t - zq_d) + zq_d", false),
            _ => continue,
        };
        let o = eval(ctx, code);
        let ev = base_event(op, id, code, &o);
        let mut ev = if is_dur { with_duration(ev, &o) } else { with_instant(ev, &o) };
        ev["t"] = json!(t);
        ev["z"] = json!(z);
        ev["d"] = d.clone();
        ev["fin"] = json!(fin);
        ev["df"] = json!(format!("{secs:e}"));
        ev["dtext"] = json!(dtext);
        out.push(ev);
    }
}

fn diff_op(ctx: &mut Context, id: &J, t: &[i64; 3], z: &str, u: &[i64; 3], zu: &str, out: &mut Vec<J>) {
    let code = "zq_t - zq_u";
    let o = eval(ctx, code);
    let mut ev = with_duration(base_event("diff", id, code, &o), &o);
    ev["t"] = json!(t);
    ev["u"] = json!(u);
    ev["z"] = json!(z);
    ev["zu"] = json!(zu);
    out.push(ev);
}

fn tz_op(ctx: &mut Context, id: &J, t: &[i64; 3], z: &str, how: &str, to: &str, local: &str, out: &mut Vec<J>) {
    let (code, target) = match how {
        "local" => ("zq_t -> local".to_string(), local.to_string()),
        "UTC" => ("zq_t -> UTC".to_string(), "UTC".to_string()),
        _ => (format!("zq_t -> tz(\"{to}\")"), to.to_string()),
    };
    let o = eval(ctx, &code);
    let mut ev = with_instant(base_event("tz", id, &code, &o), &o);
    ev["t"] = json!(t);
    ev["z"] = json!(z);
    ev["to"] = json!(target);
    ev["how"] = json!(how);
    out.push(ev);
}

fn fmt_op(ctx: &mut Context, id: &J, t: &[i64; 3], z: &str, f: &str, out: &mut Vec<J>) {
    let fmt = FORMATS.iter().find(|x| x.0 == f).map(|x| x.1).unwrap_or(f);
    let code1 = format!("let zq_s = format_datetime(\"{fmt}\", zq_t)");
    let o1 = eval(ctx, &code1);
    let shown = match (o1.cls.as_str(), global(ctx, "zq_s")) {
        ("ok", Some(Value::String(s))) => Some(s.to_string()),
        _ => None,
    };
    let (o, code) = match &shown {
        Some(_) => (eval(ctx, "datetime(zq_s)"), format!("{code1}; datetime(zq_s)")),
        None => (o1, code1),
    };
    let mut ev = with_instant(base_event("fmt", id, &code, &o), &o);
    let fields = shown.as_deref().and_then(scan_fields);
    ev["t"] = json!(t);
    ev["z"] = json!(z);
    ev["f"] = json!(f);
    ev["shown"] = json!(shown.unwrap_or_default());
    ev["fok"] = json!(fields.is_some());
    ev["fields"] = json!(fields.unwrap_or([0; 8]));
    out.push(ev);
}

// ------------------------------------------------------------------------------------------------
// G: cases from MC_DateTime.tla

fn run_case(ctx: &mut Context, c: &J, local: &str, out: &mut Vec<J>) {
    let id = &c["id"];
    let t = t_of(&c["t"]);
    let z = c["z"].as_str().unwrap_or("UTC");
    let kind = c["kind"].as_str().unwrap_or("");
    let form = c["id"].as_u64().unwrap_or(0) % 4;
    let (mk, good) = make_instant(ctx, id, "zq_t", &t, z, form);
    if !good || kind != "arith" { out.push(mk); }
    if !good { return; }
    match kind {
        "arith" => {
            let dtext = c["dtext"].as_str().unwrap();
            match make_duration(ctx, dtext) {
                Ok(secs) => {
                    let ops: Vec<String> = c["ops"].as_array().unwrap().iter().map(|x| x.as_str().unwrap().to_string()).collect();
                    arith_ops(ctx, id, &t, z, secs, dtext, &ops, out);
                }
                Err(e) => out.push(json!({"op": "setup-failed", "id": id, "text": dtext, "cls": "other", "err": e, "t": t})),
            }
        }
        "diff" => {
            let u = t_of(&c["u"]);
            let zu = c["zu"].as_str().unwrap_or("UTC");
            let (mk2, good2) = make_instant(ctx, id, "zq_u", &u, zu, (form + 1) % 4);
            out.push(mk2);
            if good2 { diff_op(ctx, id, &t, z, &u, zu, out); }
        }
        "tz" => tz_op(ctx, id, &t, z, c["how"].as_str().unwrap(), c["to"].as_str().unwrap(), local, out),
        "fmt" => fmt_op(ctx, id, &t, z, c["f"].as_str().unwrap(), out),
        _ => {}
    }
}

fn run(args: &[String]) -> i32 {
    let local = set_local_tz(args);
    let cases = read_ndjson(arg(args, "--cases").expect("--cases"));
    let threads = arg_u64(args, "--threads", 12) as usize;
    let base = match prelude_ctx() { Ok(c) => c, Err(e) => { eprintln!("{e}"); return 2; } };
    let chunks: Vec<&[J]> = cases.chunks(100).collect();
    let results: Vec<Vec<J>> = par_map(&chunks, threads, |ch| {
        let mut ctx = base.clone();
        let mut out = vec![];
        for c in ch.iter() { run_case(&mut ctx, c, &local, &mut out); }
        out
    });
    let mut out = Out::new(arg(args, "--out"));
    for r in results.iter().flatten() { out.line(r); }
    out.flush();
    0
}

// ------------------------------------------------------------------------------------------------
// J: seeded random

const UNITS: [(&str, f64); 22] = [
    ("ns", 1e-9), ("nanoseconds", 1e-9), ("µs", 1e-6), ("us", 1e-6), ("ms", 1e-3), ("milliseconds", 1e-3), ("s", 1.0), ("seconds", 1.0),
    ("min", 60.0), ("minutes", 60.0), ("h", 3600.0), ("hours", 3600.0), ("day", 86400.0), ("days", 86400.0), ("week", 604800.0),
    ("fortnight", 1209600.0), ("month", 2629743.75432), ("year", 31556925.05184), ("julian_year", 31557600.0),
    ("gregorian_year", 31556952.0), ("decade", 315569250.5184), ("century", 3155692505.184),
];

fn rand_instant(rng: &mut Rng) -> [i64; 3] {
    let lo = total_ns(&MIN_T);
    let hi = total_ns(&MAX_T);
    let nanos = |rng: &mut Rng| -> i64 {
        match rng.below(8) {
            0 | 1 => 0,
            2 => 999_999_999,
            3 => 1,
            4 => 500_000_000,
            5 => (rng.below(1000) * 1_000_000) as i64,
            _ => rng.below(1_000_000_000) as i64,
        }
    };
    let t = match rng.below(10) {
        // near the ends of the range
        0 => from_total_ns(lo + (rng.below(3 * 86400) as i128) * NS + nanos(rng) as i128),
        1 => from_total_ns(hi - (rng.below(3 * 86400) as i128) * NS - nanos(rng) as i128),
        // 1900 .. 2100
        2 | 3 | 4 => [(-25567 + rng.below(73049) as i64), rng.below(86400) as i64, nanos(rng)],
        // anywhere in the supported range
        _ => [MIN_T[0] + rng.below((MAX_T[0] - MIN_T[0] + 1) as u64) as i64, rng.below(86400) as i64, nanos(rng)],
    };
    let n = total_ns(&t).clamp(lo, hi);
    from_total_ns(n)
}

fn fmt_num(x: f64) -> String {
    // plain decimal notation (no exponent), as a numbat literal
    let s = format!("{x}");
    if s.contains('e') || s.contains("inf") || s.contains("NaN") { format!("{:.0}", x) } else { s }
}

/// a duration expression: coefficient * unit with sub-second parts in every unit, both signs, 1 ns .. 20 000 years
fn rand_duration(rng: &mut Rng, t: &[i64; 3]) -> String {
    let (un, usecs) = *rng.pick(&UNITS);
    let sign = if rng.chance(1, 2) { "-" } else { "" };
    let kind = rng.below(12);
    if kind == 0 {
        // exactly to (or 1 ns / 1 s beyond) an end of the range, in whole seconds where f64 is exact
        let to_max = rng.chance(1, 2);
        let end = if to_max { total_ns(&MAX_T) } else { total_ns(&MIN_T) };
        let dist_s = ((end - total_ns(t)).abs() / NS) as i64 + [-1i64, 0, 0, 1, 2][rng.below(5) as usize];
        let dist_s = dist_s.max(0);
        return format!("{}{} s", if to_max { "" } else { "-" }, dist_s);
    }
    if kind == 1 {
        return format!("{sign}({} {} + {} {})", 1 + rng.below(3), ["day", "h", "week", "year"][rng.below(4) as usize],
                       [1.0, 0.5, 1.5, 999999999.0, 0.25][rng.below(5) as usize], ["ns", "ns", "µs", "ms"][rng.below(4) as usize]);
    }
    // log-uniform target length between 1 ns and ~20 300 years
    let lg = -9.3 + (rng.below(1_000_000) as f64 / 1_000_000.0) * (11.81 + 9.3);
    let target = 10f64.powf(lg);
    let c = target / usecs;
    let coef = match rng.below(5) {
        // dyadic: k / 2^h
        0 | 1 => { let h = rng.below(5) as i32; (c * 2f64.powi(h)).round().max(1.0) / 2f64.powi(h) }
        // a few significant decimal digits
        2 => { let digits = 1 + rng.below(9) as i32; let mag = 10f64.powi(digits - 1 - c.abs().log10().floor() as i32); (c * mag).round().max(1.0) / mag }
        // integer
        3 => c.round().max(1.0),
        // all the digits an f64 has
        _ => c,
    };
    format!("{sign}{} {un}", fmt_num(coef))
}

fn record(args: &[String]) -> i32 {
    let local = set_local_tz(args);
    let seed = arg_u64(args, "--seed", 1);
    let events = arg_u64(args, "--events", 1000) as usize;
    let mut rng = Rng::new(seed);
    let base = match prelude_ctx() { Ok(c) => c, Err(e) => { eprintln!("{e}"); return 2; } };
    // IANA zones of the time-zone database (those jiff can load)
    let mut zones: Vec<String> = jiff::tz::db().available().map(|n| n.as_str().to_string())
        .filter(|n| jiff::tz::TimeZone::get(n).map(|z| z.iana_name() == Some(n.as_str())).unwrap_or(false)).collect();
    zones.sort();
    if zones.is_empty() { eprintln!("no time zone database"); return 2; }
    let mut out = Out::new(arg(args, "--out"));
    let mut ctx = base.clone();
    let mut n = 0usize;
    let mut case = 0u64;
    while n < events {
        if case % 100 == 0 { ctx = base.clone(); }
        case += 1;
        let id = json!(case);
        let t = rand_instant(&mut rng);
        let z = if rng.chance(1, 6) { "UTC".to_string() } else { rng.pick(&zones).clone() };
        let mut evs = vec![];
        let (mk, good) = make_instant(&mut ctx, &id, "zq_t", &t, &z, rng.below(4));
        let want_make = rng.chance(1, 8);
        if !good || want_make { evs.push(mk); }
        if good {
            match rng.below(20) {
                0..=11 => {
                    let dtext = rand_duration(&mut rng, &t);
                    match make_duration(&mut ctx, &dtext) {
                        Ok(secs) => {
                            let all = ["add", "sub", "add_diff", "sub_diff", "add_sub", "sub_add"];
                            let k = 1 + rng.below(3) as usize;
                            let ops: Vec<String> = (0..k).map(|_| all[rng.below(6) as usize].to_string()).collect();
                            arith_ops(&mut ctx, &id, &t, &z, secs, &dtext, &ops, &mut evs);
                        }
                        Err(e) => evs.push(json!({"op": "setup-failed", "id": id, "text": dtext, "cls": "other", "err": e, "t": t})),
                    }
                }
                12..=14 => {
                    let u = rand_instant(&mut rng);
                    let zu = rng.pick(&zones).clone();
                    let (mk2, good2) = make_instant(&mut ctx, &id, "zq_u", &u, &zu, rng.below(4));
                    if !good2 { evs.push(mk2); } else { diff_op(&mut ctx, &id, &t, &z, &u, &zu, &mut evs); }
                }
                15..=16 => {
                    let how = ["tz", "tz", "tz", "local", "UTC"][rng.below(5) as usize];
                    let to = rng.pick(&zones).clone();
                    tz_op(&mut ctx, &id, &t, &z, how, &to, &local, &mut evs);
                }
                _ => {
                    // RFC 3339 / RFC 9557 texts have no negative years (see FmtApplicable in DateTime.tla)
                    let nf = if t[0] >= -719161 { 5 } else { 2 };
                    let f = [FORMATS[0].0, FORMATS[1].0, FORMATS[4].0, FORMATS[2].0, FORMATS[3].0];
                    let pick = if nf == 5 { f[rng.below(5) as usize] } else { f[rng.below(3) as usize] };
                    fmt_op(&mut ctx, &id, &t, &z, pick, &mut evs);
                }
            }
        }
        for e in evs { out.line(&e); n += 1; }
    }
    out.flush();
    0
}

fn probe(args: &[String]) -> i32 {
    use std::io::BufRead;
    set_local_tz(args);
    let mut ctx = match prelude_ctx() { Ok(c) => c, Err(e) => { eprintln!("{e}"); return 2; } };
    for line in std::io::stdin().lock().lines() {
        let line = line.unwrap();
        if line.trim().is_empty() { continue; }
        let o = eval(&mut ctx, &line);
        match &o.value {
            Some(Value::DateTime(z)) => println!("{line}\n   => instant {:?} zone {:?} text {z}", instant_limbs(z), z.time_zone().iana_name()),
            Some(Value::Quantity(q)) => {
                let s = q.to_base_unit_representation().unsafe_value().to_f64();
                println!("{line}\n   => quantity {q} base {s:e} limbs {:?}", dur_limbs(s));
            }
            Some(v) => println!("{line}\n   => {v}"),
            None => println!("{line}\n   => {} {} {}", o.cls, o.err, o.msg.replace('\n', " | ")),
        }
    }
    0
}

fn main() {
    nvh::main_dispatch(&[("run", run), ("record", record), ("probe", probe)]);
}
