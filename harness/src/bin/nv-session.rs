//! Session-based checks (C06, C07, ...): see nvh::session.
fn main() {
    nvh::main_dispatch(&[("session-run", nvh::session::run), ("session-c07", nvh::session::run_c07)]);
}
