//! C10: binding of spec/Lexer.tla + spec/Grammar.tla to numbat's real tokenizer and parser.
//!
//!   spell-check --meta m.json --out f      every spelling of the Lexer table through the real tokenizer
//!   literals    --cases f --out f          texts of the literal automaton: token kinds + parse result
//!   g-run       --meta m.json --cases f --seed n --out f
//!                                          token sequences written in each spelling class / whitespace
//!                                          style, parsed by the real parser (G direction)
//!   j-record    --meta m.json --seed n --trees n --soup n --depth d --out f
//!                                          random deep trees / token soup, rendered, parsed, recorded
//!                                          as ndjson for Trace_Grammar.tla (J direction)
//!   probe                                  stdin lines -> s-expression / REJECT (debugging aid)
//!
//! A token is (kind, value) with the kinds of Lexer.tla; a token sequence is written "id:v1 minus num:3".
use nvh::util::*;
use serde_json::{json, Value as J};
use std::collections::{HashMap, HashSet};
use std::io::BufRead;

// ---------------------------------------------------------------------------------------------
// the Lexer table as printed by TLC (META line of MC_Grammar)

#[derive(Clone, Debug)]
struct Spelling {
    s: String,
    cls: String,
    w: bool,
}

struct Table {
    spell: HashMap<String, Vec<Spelling>>,
    fusing: HashSet<(String, String)>,
    uexp: HashMap<String, String>,
}

fn load_table(path: &str) -> Table {
    let m: J = serde_json::from_str(&std::fs::read_to_string(path).expect("meta file")).expect("meta json");
    let mut spell: HashMap<String, Vec<Spelling>> = HashMap::new();
    for e in m["spellings"].as_array().unwrap() {
        spell.entry(e["k"].as_str().unwrap().to_string()).or_default().push(Spelling {
            s: e["s"].as_str().unwrap().to_string(),
            cls: e["cls"].as_str().unwrap().to_string(),
            w: e["w"].as_bool().unwrap(),
        });
    }
    let fusing = m["fusing"].as_array().unwrap().iter()
        .map(|p| (p[0].as_str().unwrap().to_string(), p[1].as_str().unwrap().to_string())).collect();
    let uexp = m["uexp"].as_object().unwrap().iter().map(|(k, v)| (k.clone(), v.as_str().unwrap().to_string())).collect();
    Table { spell, fusing, uexp }
}

#[derive(Clone, Debug, PartialEq)]
struct Tok {
    k: String,
    v: String,
}

fn parse_toks(s: &str) -> Vec<Tok> {
    s.split_whitespace().map(|p| match p.split_once(':') {
        Some((k, v)) => Tok { k: k.to_string(), v: v.to_string() },
        None => Tok { k: p.to_string(), v: String::new() },
    }).collect()
}

/// names of the real tokenizer's kinds a spec kind may map to (binding table)
fn impl_kind_ok(spec: &Tok, imp: &str) -> bool {
    match spec.k.as_str() {
        "num" => imp == "Number" || imp.starts_with("IntegerWithBase") || imp == "NaN" || imp == "Inf",
        "id" => imp == "Identifier",
        "bool" => (spec.v == "true" && imp == "True") || (spec.v == "false" && imp == "False"),
        "lp" => imp == "LeftParen",
        "rp" => imp == "RightParen",
        "lb" => imp == "LeftBracket",
        "rb" => imp == "RightBracket",
        "comma" => imp == "Comma",
        "dot" => imp == "Period",
        "plus" => imp == "Plus",
        "minus" => imp == "Minus",
        "mul" => imp == "Multiply",
        "div" => imp == "Divide",
        "per" => imp == "Per",
        "pow" => imp == "Power",
        "bang" => imp == "ExclamationMark",
        "uexp" => imp == "UnicodeExponent",
        "arrow" => imp == "Arrow" || imp == "To",
        "lt" => imp == "LessThan",
        "gt" => imp == "GreaterThan",
        "le" => imp == "LessOrEqual",
        "ge" => imp == "GreaterOrEqual",
        "eq" => imp == "EqualEqual",
        "ne" => imp == "NotEqual",
        "and" => imp == "LogicalAnd",
        "or" => imp == "LogicalOr",
        "apply" => imp == "PostfixApply",
        "if" => imp == "If",
        "then" => imp == "Then",
        "else" => imp == "Else",
        _ => false,
    }
}

// ---------------------------------------------------------------------------------------------
// rendering

#[derive(Clone, Copy, PartialEq, Debug)]
enum Style {
    Ascii,
    Unicode,
    Mixed,
}

struct Piece {
    text: String,
    w: bool,
    kind: String,
    plain_int: bool,
}

/// ways of writing the non-negative integer n (all denote exactly n); notation 0 is the plain one
fn number_text(n: u64, notation: u64) -> String {
    match notation % 12 {
        0 => format!("{n}"),
        1 => format!("{n}.0"),
        2 => format!("{n}."),
        3 => format!("{n}e0"),
        4 => format!("{n}E+0"),
        5 => format!("{n}0e-1"),
        6 => format!("0.{n}e{}", n.to_string().len()),
        7 => format!("0x{n:x}"),
        8 => format!("0o{n:o}"),
        9 => format!("0b{n:b}"),
        10 => format!("0_{n}"),
        _ => {
            let s = n.to_string();
            if s.len() >= 2 { format!("{}_{}", &s[..1], &s[1..]) } else { format!("{n}.0_0") }
        }
    }
}

fn spell(tok: &Tok, style: Style, pick: u64, t: &Table) -> Piece {
    let k = tok.k.as_str();
    match k {
        "num" => {
            if let Ok(n) = tok.v.parse::<u64>() {
                let notation = if style == Style::Mixed { pick } else { 0 };
                Piece { text: number_text(n, notation), w: true, kind: k.into(), plain_int: notation % 12 == 0 }
            } else {
                // NaN, inf
                Piece { text: tok.v.clone(), w: true, kind: k.into(), plain_int: false }
            }
        }
        "id" | "bool" => Piece { text: tok.v.clone(), w: true, kind: k.into(), plain_int: false },
        "uexp" => Piece { text: t.uexp.get(&tok.v).unwrap_or_else(|| panic!("uexp {}", tok.v)).clone(), w: false, kind: k.into(), plain_int: false },
        _ => {
            let all = t.spell.get(k).unwrap_or_else(|| panic!("no spelling for kind {k}"));
            let sp = match style {
                Style::Ascii => all.iter().find(|s| s.cls != "unicode").unwrap_or(&all[0]),
                Style::Unicode => {
                    let u: Vec<&Spelling> = all.iter().filter(|s| s.cls == "unicode").collect();
                    if u.is_empty() { &all[0] } else { u[(pick % u.len() as u64) as usize] }
                }
                Style::Mixed => &all[(pick % all.len() as u64) as usize],
            };
            Piece { text: sp.s.clone(), w: sp.w, kind: k.into(), plain_int: false }
        }
    }
}

/// 0 = no separator allowed, 1 = optional, 2 = required      (Lexer.tla part 2)
fn separator(a: &Piece, b: &Piece, t: &Table, glue_num_id: bool) -> u8 {
    if a.kind == "dot" {
        return if b.kind == "id" { 0 } else { 2 };
    }
    if a.kind == "num" && b.kind == "dot" {
        return 2;
    }
    if a.w && b.w {
        if glue_num_id && a.kind == "num" && a.plain_int && b.kind == "id" {
            return 1;
        }
        return 2;
    }
    if t.fusing.contains(&(a.text.clone(), b.text.clone())) {
        return 2;
    }
    1
}

/// random_ws: extra blanks and tabs wherever they are not significant (else minimal whitespace);
/// force_sep: a blank between all tokens except where it is forbidden (fallback when the minimal text does not lex
/// as intended, so that the parser still sees this spelling variant)
fn render(toks: &[Tok], style: Style, seed: u64, random_ws: bool, force_sep: bool, t: &Table) -> (String, Vec<String>) {
    let mut rng = Rng::new(seed);
    let pieces: Vec<Piece> = toks.iter().map(|tk| spell(tk, style, rng.next() >> 8, t)).collect();
    let mut out = String::new();
    let blank = |rng: &mut Rng, out: &mut String, at_least_one: bool| {
        let n = if at_least_one { 1 + rng.below(3) } else { rng.below(3) };
        for _ in 0..n {
            out.push(if rng.chance(1, 4) { '\t' } else { ' ' });
        }
    };
    if random_ws && rng.chance(1, 3) {
        blank(&mut rng, &mut out, true);
    }
    for (i, p) in pieces.iter().enumerate() {
        if i > 0 {
            match separator(&pieces[i - 1], p, t, !random_ws || rng.chance(1, 2)) {
                0 => {}
                1 => {
                    if force_sep {
                        if random_ws { blank(&mut rng, &mut out, true) } else { out.push(' ') }
                    } else if random_ws && rng.chance(1, 2) {
                        blank(&mut rng, &mut out, true);
                    }
                }
                _ => {
                    if random_ws { blank(&mut rng, &mut out, true) } else { out.push(' ') }
                }
            }
        }
        out.push_str(&p.text);
    }
    if random_ws && rng.chance(1, 3) {
        blank(&mut rng, &mut out, true);
    }
    (out, pieces.into_iter().map(|p| p.text).collect())
}

/// Does the text lex to the intended tokens (kinds and lexemes)? None = the sequence has no text at all (a dot
/// that is not followed by an identifier is not a token, Lexer.tla part 2 (c)).
fn lex_check(toks: &[Tok], pieces: &[String], text: &str) -> Option<Result<(), String>> {
    for (i, t) in toks.iter().enumerate() {
        if t.k == "dot" && toks.get(i + 1).map(|n| n.k != "id").unwrap_or(true) {
            return None;
        }
    }
    Some(match numbat::verif::token_kinds(text) {
        Err(e) => Err(format!("tokenizer error: {e}")),
        Ok(ks) => {
            let problem = if ks.len() != toks.len() {
                Some(format!("{} tokens instead of {}", ks.len(), toks.len()))
            } else if let Some(i) = (0..ks.len()).find(|&i| !impl_kind_ok(&toks[i], &ks[i].0)) {
                Some(format!("token {} is {} instead of {}", i + 1, ks[i].0, toks[i].k))
            } else {
                (0..ks.len()).find(|&i| ks[i].1 != pieces[i]).map(|i| format!("token {} is {:?} instead of {:?}", i + 1, ks[i].1, pieces[i]))
            };
            match problem {
                Some(p) => Err(format!("{p}: {ks:?}")),
                None => Ok(()),
            }
        }
    })
}

/// what the real parser makes of a text: the s-expression of the single expression statement, or REJECT
fn parse_outcome(text: &str) -> (String, String) {
    let t = text.to_string();
    match std::panic::catch_unwind(move || numbat::verif::parse_sexpr(&t)) {
        Ok(Ok(v)) if v.len() == 1 => (v[0].clone(), String::new()),
        Ok(Ok(v)) => (format!("MULTI {}", v.join(" ; ")), String::new()),
        Ok(Err(e)) => ("REJECT".to_string(), e.join(" | ")),
        Err(_) => ("PANIC".to_string(), String::new()),
    }
}

// ---------------------------------------------------------------------------------------------
// commands

fn spell_check(args: &[String]) -> i32 {
    let m: J = serde_json::from_str(&std::fs::read_to_string(arg(args, "--meta").unwrap()).unwrap()).unwrap();
    let mut out = Out::new(arg(args, "--out"));
    let mut texts: Vec<(String, String)> = vec![];
    for e in m["spellings"].as_array().unwrap() {
        texts.push((e["k"].as_str().unwrap().into(), e["s"].as_str().unwrap().into()));
    }
    for (v, s) in m["uexp"].as_object().unwrap() {
        texts.push((format!("uexp:{v}"), s.as_str().unwrap().into()));
    }
    for (w, _) in m["reserved"].as_object().unwrap() {
        texts.push(("reserved".into(), w.clone()));
    }
    for (k, s) in texts {
        let r = numbat::verif::token_kinds(&s);
        out.line(&json!({"k": k, "s": s, "tk": r.as_ref().ok().map(|v| v.iter().map(|x| x.0.clone()).collect::<Vec<_>>()),
                         "err": r.err()}));
    }
    out.flush();
    0
}

fn literals(args: &[String]) -> i32 {
    let cases = read_ndjson(arg(args, "--cases").unwrap());
    let mut out = Out::new(arg(args, "--out"));
    let res = par_map(&cases, 8, |c| {
        let s = c["s"].as_str().unwrap();
        let tk = numbat::verif::token_kinds(s);
        let (p, _) = parse_outcome(s);
        json!({"s": s, "tk": tk.as_ref().ok().map(|v| v.iter().map(|x| x.0.clone()).collect::<Vec<_>>()), "p": p})
    });
    for r in &res {
        out.line(r);
    }
    out.flush();
    0
}

const VARIANTS: &[(Style, bool)] = &[
    (Style::Ascii, false), (Style::Unicode, false), (Style::Mixed, false),
    (Style::Ascii, true), (Style::Unicode, true), (Style::Mixed, true), (Style::Mixed, true),
];

fn g_run(args: &[String]) -> i32 {
    let table = load_table(arg(args, "--meta").unwrap());
    let cases = read_ndjson(arg(args, "--cases").unwrap());
    let seed = arg_u64(args, "--seed", 1);
    let mut out = Out::new(arg(args, "--out"));
    let idx: Vec<usize> = (0..cases.len()).collect();
    let res = par_map(&idx, 8, |&i| {
        let toks = parse_toks(cases[i]["t"].as_str().unwrap());
        let mut outs: Vec<String> = vec![];
        let mut texts: Vec<String> = vec![];
        let mut msg = String::new();
        let mut lexbad: Vec<J> = vec![];
        let mut nlexbad = 0u64;
        let mut xp: Vec<Vec<String>> = vec![];
        for (vi, (style, ws)) in VARIANTS.iter().enumerate() {
            let vseed = seed.wrapping_mul(1_000_003).wrapping_add((i * 16 + vi) as u64);
            let (mut text, mut pieces) = render(&toks, *style, vseed, *ws, false, &table);
            if let Some(Err(e)) = lex_check(&toks, &pieces, &text) {
                nlexbad += 1;
                if lexbad.is_empty() {
                    lexbad.push(json!({"text": text, "why": e}));
                }
                (text, pieces) = render(&toks, *style, vseed, *ws, true, &table);
                if let Some(Err(e2)) = lex_check(&toks, &pieces, &text) {
                    lexbad.push(json!({"text": text, "why": e2, "separated": true}));
                    continue;
                }
            }
            let (o, m) = parse_outcome(&text);
            if !outs.contains(&o) {
                outs.push(o);
                texts.push(text);
                xp.push(pieces);
                if msg.is_empty() { msg = m; }
            }
        }
        let mut r = json!({"i": i, "o": outs, "x": texts});
        if outs.iter().any(|o| o != "REJECT") || outs.len() > 1 || cases[i].get("a").is_some() { r["xp"] = json!(xp); }
        if !msg.is_empty() { r["m"] = json!(msg); }
        if !lexbad.is_empty() { r["lexbad"] = json!(lexbad); r["nlexbad"] = json!(nlexbad); }
        r
    });
    for r in &res {
        out.line(r);
    }
    out.line(&json!({"summary": true, "cases": cases.len(), "variants": VARIANTS.len()}));
    out.flush();
    0
}

// ---- s-expression -> canonical tree (nested arrays, the format of Grammar.tla) ------------------

fn sexpr_tokens(s: &str) -> Vec<String> {
    let mut out = vec![];
    let cs: Vec<char> = s.chars().collect();
    let mut i = 0;
    while i < cs.len() {
        let c = cs[i];
        if c == '(' || c == ')' {
            out.push(c.to_string());
            i += 1;
        } else if c.is_whitespace() {
            i += 1;
        } else if c == '"' {
            let mut j = i + 1;
            while j < cs.len() && cs[j] != '"' {
                if cs[j] == '\\' { j += 1; }
                j += 1;
            }
            out.push(cs[i..(j + 1).min(cs.len())].iter().collect());
            i = j + 1;
        } else {
            let mut j = i;
            while j < cs.len() && !cs[j].is_whitespace() && cs[j] != '(' && cs[j] != ')' {
                j += 1;
            }
            out.push(cs[i..j].iter().collect());
            i = j;
        }
    }
    out
}

fn num_label(s: &str) -> String {
    match s.parse::<f64>() {
        Ok(x) if x.is_finite() && x.fract() == 0.0 && x.abs() < 1e15 => format!("{}", x as i64),
        Ok(x) if x.is_nan() => "NaN".into(),
        Ok(x) if x.is_infinite() => (if x > 0.0 { "inf" } else { "-inf" }).into(),
        _ => s.to_string(),
    }
}

fn sexpr_tree(toks: &[String], pos: &mut usize) -> J {
    if toks[*pos] != "(" {
        *pos += 1;
        return json!(toks[*pos - 1]);
    }
    *pos += 1;
    let tag = toks[*pos].clone();
    *pos += 1;
    let mut items: Vec<J> = vec![];
    let mut atoms: Vec<String> = vec![];
    while toks[*pos] != ")" {
        if toks[*pos] == "(" {
            items.push(sexpr_tree(toks, pos));
        } else {
            atoms.push(toks[*pos].clone());
            *pos += 1;
        }
    }
    *pos += 1;
    match tag.as_str() {
        "num" => json!(["num", num_label(&atoms[0])]),
        "id" => json!(["id", atoms[0]]),
        "bool" => json!(["bool", atoms[0]]),
        "neg" | "not" => json!([tag, items[0]]),
        "call" => {
            let f = items.remove(0);
            json!(["call", f, items])
        }
        "field" => json!(["field", items[0], atoms[0]]),
        "list" => json!(["list", items]),
        "if" => json!(["if", items[0], items[1], items[2]]),
        t if t.starts_with("fact") => json!(["fact", t[4..].parse::<u64>().unwrap_or(0), items[0]]),
        _ if items.len() == 2 && atoms.is_empty() => json!([tag, items[0], items[1]]),
        _ => json!(["other", tag]),
    }
}

fn outcome_tree(o: &str) -> J {
    if o == "REJECT" {
        return json!(["REJECT"]);
    }
    if o == "PANIC" || o.starts_with("MULTI") {
        return json!(["other", o]);
    }
    let t = sexpr_tokens(o);
    let mut pos = 0;
    sexpr_tree(&t, &mut pos)
}

// ---- J: random trees and token soup --------------------------------------------------------------

struct Gen<'a> {
    rng: &'a mut Rng,
    next_label: u64,
}

const BIN: &[(&str, &str, u8, u8, u8)] = &[
    // tag, operator kind ("" = juxtaposition), own level, least left level, least right level
    ("mul", "mul", 9, 9, 10), ("jux", "", 12, 12, 13), ("div", "div", 9, 9, 10), ("divper", "per", 10, 10, 11),
    ("add", "plus", 8, 8, 9), ("sub", "minus", 8, 8, 9), ("pow", "pow", 13, 14, 13),
    ("lt", "lt", 7, 7, 8), ("gt", "gt", 7, 7, 8), ("le", "le", 7, 7, 8), ("ge", "ge", 7, 7, 8),
    ("eq", "eq", 7, 7, 8), ("ne", "ne", 7, 7, 8), ("and", "and", 5, 5, 6), ("or", "or", 4, 4, 5),
    ("conv", "arrow", 3, 3, 4),
];

fn tk(k: &str, v: &str) -> Tok {
    Tok { k: k.into(), v: v.into() }
}

impl Gen<'_> {
    fn label(&mut self) -> u64 {
        self.next_label += 1;
        self.next_label
    }

    /// random expression as (tokens, level); parentheses are placed by the level table, plus random
    /// redundant ones, and now and then a needed pair is left out (the specification judges whatever
    /// token sequence results)
    fn expr(&mut self, depth: u64) -> (Vec<Tok>, u8) {
        if depth == 0 || self.rng.chance(1, 6) {
            let l = self.label();
            return match self.rng.below(12) {
                0..=4 => (vec![tk("id", &format!("v{l}"))], 17),
                5..=8 => (vec![tk("num", &l.to_string())], 17),
                9 => (vec![tk("bool", if self.rng.chance(1, 2) { "true" } else { "false" })], 17),
                10 => (vec![tk("num", if self.rng.chance(1, 2) { "NaN" } else { "inf" })], 17),
                _ => (vec![tk("lb", ""), tk("rb", "")], 17),
            };
        }
        match self.rng.below(20) {
            0..=9 => {
                let (tag, op, lvl, lmin, rmin) = *self.rng.pick(BIN);
                let a = self.expr(depth - 1);
                let b = self.expr(depth - 1);
                let mut out = self.operand(a, lmin);
                if !op.is_empty() {
                    out.push(tk(op, ""));
                }
                if tag == "pow" && self.rng.chance(1, 4) {
                    out.push(tk("minus", ""));
                }
                out.extend(self.operand(b, rmin));
                (out, lvl)
            }
            10 => { let a = self.expr(depth - 1); let mut o = vec![tk("minus", "")]; o.extend(self.operand(a, 11)); (o, 11) }
            11 => { let a = self.expr(depth - 1); let mut o = vec![tk("bang", "")]; o.extend(self.operand(a, 6)); (o, 6) }
            12 => {
                let a = self.expr(depth - 1);
                let mut o = self.operand(a, 15);
                for _ in 0..(1 + self.rng.below(3)) { o.push(tk("bang", "")); }
                (o, 14)
            }
            13 => {
                let a = self.expr(depth - 1);
                let mut o = self.operand(a, 16);
                let e = 1 + self.rng.below(9) as i64;
                o.push(tk("uexp", &(if self.rng.chance(1, 3) { -e } else { e }).to_string()));
                (o, 15)
            }
            14 | 15 => {
                // call with 0..3 arguments
                let f = self.expr(depth.min(2) - 1);
                let mut o = self.operand(f, 16);
                o.push(tk("lp", ""));
                let n = self.rng.below(4);
                for i in 0..n {
                    if i > 0 { o.push(tk("comma", "")); }
                    let a = self.expr(depth - 1);
                    o.extend(self.operand(a, 1));
                }
                o.push(tk("rp", ""));
                (o, 16)
            }
            16 => {
                let a = self.expr(depth - 1);
                let mut o = self.operand(a, 16);
                let l = self.label();
                o.push(tk("dot", ""));
                o.push(tk("id", &format!("f{l}")));
                (o, 16)
            }
            17 => {
                let c = self.expr(depth - 1);
                let t = self.expr(depth - 1);
                let e = self.expr(depth - 1);
                let mut o = vec![tk("if", "")];
                o.extend(self.operand(c, 3));
                o.push(tk("then", ""));
                o.extend(self.operand(t, 2));
                o.push(tk("else", ""));
                o.extend(self.operand(e, 2));
                (o, 2)
            }
            18 => {
                let x = self.expr(depth - 1);
                let mut o = self.operand(x, 1);
                let l = self.label();
                o.push(tk("apply", ""));
                o.push(tk("id", &format!("g{l}")));
                if self.rng.chance(1, 2) {
                    o.push(tk("lp", ""));
                    let n = self.rng.below(3);
                    for i in 0..n {
                        if i > 0 { o.push(tk("comma", "")); }
                        let a = self.expr(depth - 1);
                        o.extend(self.operand(a, 1));
                    }
                    o.push(tk("rp", ""));
                }
                (o, 1)
            }
            _ => {
                let mut o = vec![tk("lb", "")];
                let n = 1 + self.rng.below(3);
                for i in 0..n {
                    if i > 0 { o.push(tk("comma", "")); }
                    let a = self.expr(depth - 1);
                    o.extend(self.operand(a, 1));
                }
                o.push(tk("rb", ""));
                (o, 17)
            }
        }
    }

    fn operand(&mut self, e: (Vec<Tok>, u8), min: u8) -> Vec<Tok> {
        let (toks, lvl) = e;
        let needed = lvl < min;
        let parens = if needed { !self.rng.chance(1, 12) } else { self.rng.chance(1, 6) };
        if parens {
            let mut o = vec![tk("lp", "")];
            o.extend(toks);
            o.push(tk("rp", ""));
            o
        } else {
            toks
        }
    }
}

const SOUP_KINDS: &[&str] = &["num", "id", "bool", "lp", "rp", "lb", "rb", "comma", "dot", "plus", "minus", "mul", "div", "per",
    "pow", "bang", "uexp", "arrow", "lt", "gt", "le", "ge", "eq", "ne", "and", "or", "apply", "if", "then", "else"];

fn soup_token(rng: &mut Rng, label: u64) -> Tok {
    let k = *rng.pick(SOUP_KINDS);
    match k {
        "num" => tk("num", &label.to_string()),
        "id" => tk("id", &format!("v{label}")),
        "bool" => tk("bool", if rng.chance(1, 2) { "true" } else { "false" }),
        "uexp" => tk("uexp", &(1 + rng.below(9)).to_string()),
        _ => tk(k, ""),
    }
}

fn j_record(args: &[String]) -> i32 {
    let table = load_table(arg(args, "--meta").unwrap());
    let seed = arg_u64(args, "--seed", 1);
    let ntrees = arg_u64(args, "--trees", 1000);
    let nsoup = arg_u64(args, "--soup", 1000);
    let depth = arg_u64(args, "--depth", 6);
    let mut out = Out::new(arg(args, "--out"));
    let mut rng = Rng::new(seed);
    let mut seqs: Vec<(Vec<Tok>, &str)> = vec![];
    for _ in 0..ntrees {
        let d = 1 + rng.below(depth);
        let mut g = Gen { rng: &mut rng, next_label: 0 };
        let (toks, _) = g.expr(d);
        if toks.len() <= 60 {
            seqs.push((toks, "tree"));
        }
    }
    for i in 0..nsoup {
        // token soup: half of it pure noise, half a tree's tokens with one to three edits
        let toks = if i % 2 == 0 {
            let n = 1 + rng.below(9);
            (0..n).map(|j| soup_token(&mut rng, 100 + j)).collect::<Vec<_>>()
        } else {
            let d = 1 + rng.below(4);
            let mut g = Gen { rng: &mut rng, next_label: 0 };
            let (mut toks, _) = g.expr(d);
            for e in 0..(1 + rng.below(3)) {
                let p = rng.below(toks.len() as u64 + 1) as usize;
                match rng.below(3) {
                    0 if !toks.is_empty() => { toks.remove(p.min(toks.len() - 1)); }
                    1 if !toks.is_empty() => { let q = p.min(toks.len() - 1); toks[q] = soup_token(&mut rng, 200 + e); }
                    _ => toks.insert(p, soup_token(&mut rng, 300 + e)),
                }
            }
            toks
        };
        if !toks.is_empty() && toks.len() <= 60 {
            seqs.push((toks, "soup"));
        }
    }
    let mut nolex = 0u64;
    for (n, (toks, origin)) in seqs.iter().enumerate() {
        let style = *rng.pick(&[Style::Ascii, Style::Unicode, Style::Mixed, Style::Mixed]);
        let ws = rng.chance(1, 2);
        let vseed = seed.wrapping_mul(7_919).wrapping_add(n as u64);
        let (mut text, mut pieces) = render(toks, style, vseed, ws, false, &table);
        match lex_check(toks, &pieces, &text) {
            None => { nolex += 1; continue; }          // no text has this token sequence
            Some(Err(e)) => {
                out.line(&json!({"lexbad": true, "text": text, "why": e, "toks": toks.iter().map(|t| json!([t.k, t.v])).collect::<Vec<_>>()}));
                (text, pieces) = render(toks, style, vseed, ws, true, &table);
                if let Some(Err(e2)) = lex_check(toks, &pieces, &text) {
                    out.line(&json!({"lexbad": true, "separated": true, "text": text, "why": e2,
                                     "toks": toks.iter().map(|t| json!([t.k, t.v])).collect::<Vec<_>>()}));
                    continue;
                }
            }
            Some(Ok(())) => {}
        }
        let (o, m) = parse_outcome(&text);
        out.line(&json!({"toks": toks.iter().map(|t| json!([t.k, t.v])).collect::<Vec<_>>(), "text": text, "pieces": pieces,
                         "origin": origin, "out": outcome_tree(&o), "msg": m}));
    }
    out.flush();
    eprintln!("j-record: {} sequences, {} without a text", seqs.len(), nolex);
    0
}

/// s-expression -> tree for a file of outcomes (used by the binding self-test of the two normalisers)
fn sexpr_to_tree(args: &[String]) -> i32 {
    let rows = read_ndjson(arg(args, "--in").unwrap());
    let mut out = Out::new(arg(args, "--out"));
    for r in rows {
        out.line(&outcome_tree(r["o"].as_str().unwrap()));
    }
    out.flush();
    0
}

fn probe(_args: &[String]) -> i32 {
    let stdin = std::io::stdin();
    for line in stdin.lock().lines() {
        let line = line.unwrap();
        let tkk = match numbat::verif::token_kinds(&line) {
            Ok(v) => v.iter().map(|x| x.0.clone()).collect::<Vec<_>>().join(" "),
            Err(e) => format!("TOKERR {e}"),
        };
        let (o, m) = parse_outcome(&line);
        println!("{:<28} => {} {}    [{}]", line, o, m, tkk);
    }
    0
}

fn main() {
    nvh::main_dispatch(&[("spell-check", spell_check), ("literals", literals), ("g-run", g_run), ("j-record", j_record),
                         ("sexpr-to-tree", sexpr_to_tree), ("probe", probe)])
}
