//! nvh: shared code of the conformance harness binding the TLA+ specification in /verif/spec to the
//! real numbat code in /repo (built with --cfg numbat_verif).  One binary per model lives in src/bin/.
pub mod session;
pub mod util;

/// Panics of the code under test are data (caught and reported), not noise on stderr.
pub fn quiet_panics() {
    if std::env::var("NV_PANIC_TRACE").is_err() {
        std::panic::set_hook(Box::new(|_| {}));
    }
}

/// Standard `main` of a harness binary: dispatch on the first argument.
pub fn main_dispatch(commands: &[(&str, fn(&[String]) -> i32)]) -> ! {
    quiet_panics();
    let args: Vec<String> = std::env::args().skip(1).collect();
    if args.is_empty() {
        eprintln!("usage: <command> [args]; commands: {:?}", commands.iter().map(|c| c.0).collect::<Vec<_>>());
        std::process::exit(2);
    }
    for (name, f) in commands {
        if *name == args[0] {
            std::process::exit(f(&args[1..]));
        }
    }
    eprintln!("unknown command {}", args[0]);
    std::process::exit(2);
}
