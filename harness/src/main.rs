//! nv-harness: conformance harness binding the TLA+ specification in /verif/spec to the real
//! numbat code in /repo (built with --cfg numbat_verif).
//!
//! Sub-commands read/write ndjson; see the module of each model.

mod util;
mod list;
mod session;

fn main() {
    // panics of the code under test are data (caught and reported), not noise on stderr
    if std::env::var("NV_PANIC_TRACE").is_err() {
        std::panic::set_hook(Box::new(|_| {}));
    }
    let args: Vec<String> = std::env::args().skip(1).collect();
    if args.is_empty() {
        eprintln!("usage: nv-harness <command> [args]");
        std::process::exit(2);
    }
    let rest = &args[1..];
    let rc = match args[0].as_str() {
        "list-replay" => list::replay(rest),
        "list-record" => list::record(rest),
        "session-run" => session::run(rest),
        "session-c07" => session::run_c07(rest),
        other => {
            eprintln!("unknown command {other}");
            2
        }
    };
    std::process::exit(rc);
}
