#![allow(dead_code)]
use serde_json::Value as J;
use std::io::{BufRead, Write};

pub fn arg<'a>(args: &'a [String], name: &str) -> Option<&'a str> {
    let mut i = 0;
    while i < args.len() {
        if args[i] == name {
            return args.get(i + 1).map(|s| s.as_str());
        }
        i += 1;
    }
    None
}

pub fn arg_u64(args: &[String], name: &str, default: u64) -> u64 {
    arg(args, name).map(|s| s.parse().expect("integer argument")).unwrap_or(default)
}

pub fn has_flag(args: &[String], name: &str) -> bool {
    args.iter().any(|a| a == name)
}

pub fn read_ndjson(path: &str) -> Vec<J> {
    let f = std::fs::File::open(path).unwrap_or_else(|e| panic!("open {path}: {e}"));
    std::io::BufReader::new(f)
        .lines()
        .map(|l| l.unwrap())
        .filter(|l| !l.trim().is_empty())
        .map(|l| serde_json::from_str(&l).unwrap_or_else(|e| panic!("bad json line {l}: {e}")))
        .collect()
}

pub struct Out {
    w: std::io::BufWriter<Box<dyn Write>>,
}

impl Out {
    pub fn new(path: Option<&str>) -> Self {
        let w: Box<dyn Write> = match path {
            Some(p) => Box::new(std::fs::File::create(p).unwrap()),
            None => Box::new(std::io::stdout()),
        };
        Out { w: std::io::BufWriter::new(w) }
    }
    pub fn line(&mut self, v: &J) {
        serde_json::to_writer(&mut self.w, v).unwrap();
        self.w.write_all(b"\n").unwrap();
    }
    pub fn flush(&mut self) {
        self.w.flush().unwrap();
    }
}

/// Deterministic small RNG (xorshift*), so traces depend only on the seed.
pub struct Rng(pub u64);
impl Rng {
    pub fn new(seed: u64) -> Self {
        Rng(seed.wrapping_mul(0x9E3779B97F4A7C15) ^ 0xD1B54A32D192ED03)
    }
    pub fn next(&mut self) -> u64 {
        let mut x = self.0;
        x ^= x >> 12;
        x ^= x << 25;
        x ^= x >> 27;
        self.0 = x;
        x.wrapping_mul(0x2545F4914F6CDD1D)
    }
    pub fn below(&mut self, n: u64) -> u64 {
        self.next() % n
    }
    pub fn pick<'a, T>(&mut self, xs: &'a [T]) -> &'a T {
        &xs[self.below(xs.len() as u64) as usize]
    }
    pub fn chance(&mut self, num: u64, den: u64) -> bool {
        self.below(den) < num
    }
}

/// order-preserving parallel map over a slice with plain threads
pub fn par_map<T: Sync, R: Send>(items: &[T], threads: usize, f: impl Fn(&T) -> R + Sync) -> Vec<R> {
    let n = items.len();
    let threads = threads.max(1).min(n.max(1));
    let chunk = n.div_ceil(threads).max(1);
    let mut out: Vec<Vec<R>> = vec![];
    std::thread::scope(|s| {
        let handles: Vec<_> = items.chunks(chunk).map(|c| {
            let f = &f;
            std::thread::Builder::new().stack_size(256 << 20).spawn_scoped(s, move || c.iter().map(f).collect::<Vec<R>>()).unwrap()
        }).collect();
        for h in handles {
            out.push(h.join().unwrap());
        }
    });
    out.into_iter().flatten().collect()
}
