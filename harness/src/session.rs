//! Generic session executor/observer used by the Session-based checks (C06, C07, C21, C22, C24, ...):
//! runs scripts of inputs on a real `numbat::Context` and reports, in abstract form, everything the
//! specification predicts: outcome class of each input, printed output, result, names, probes.
use crate::util::*;
use numbat::module_importer::{BuiltinModuleImporter, ChainedImporter, ModuleImporter};
use numbat::resolver::{CodeSource, ModulePath};
use numbat::value::Value;
use numbat::{Context, InterpreterResult, InterpreterSettings, NumbatError};
use serde_json::{json, Value as J};
use std::collections::BTreeSet;
use std::path::PathBuf;
use std::sync::{Arc, Mutex};

#[derive(Clone, Default)]
pub struct MapImporter {
    pub modules: Arc<Vec<(String, String)>>,
}

impl ModuleImporter for MapImporter {
    fn import(&self, path: &ModulePath) -> Option<(String, Option<PathBuf>)> {
        let name = path.0.iter().map(|s| s.as_str()).collect::<Vec<_>>().join("::");
        self.modules.iter().find(|(n, _)| *n == name).map(|(_, t)| (t.clone(), None))
    }
    fn list_modules(&self) -> Vec<ModulePath> {
        self.modules.iter().map(|(n, _)| ModulePath(n.split("::").map(|s| s.into()).collect())).collect()
    }
}

pub fn new_context(modules: &[(String, String)], builtin: bool) -> Context {
    let map = MapImporter { modules: Arc::new(modules.to_vec()) };
    if builtin {
        Context::new(ChainedImporter::new(Box::new(map), Box::new(BuiltinModuleImporter::default())))
    } else {
        Context::new(map)
    }
}

pub struct StepResult {
    pub outcome: String,
    pub kind: String,
    pub message: String,
    pub out: Vec<String>,
    pub value: Option<Value>,
    pub echo: Vec<String>,
}

fn variant_name<T: std::fmt::Debug>(t: &T) -> String {
    let s = format!("{t:?}");
    s.split(|c: char| !(c.is_alphanumeric() || c == '_')).next().unwrap_or("").to_string()
}

pub fn classify(e: &NumbatError) -> (String, String) {
    match e {
        NumbatError::ResolverError(r) => (
            "resolver".into(),
            match r {
                numbat::resolver::ResolverError::UnknownModule(..) => "unknown_module".into(),
                numbat::resolver::ResolverError::ParseErrors(..) => "parse".into(),
            },
        ),
        NumbatError::NameResolutionError(n) => ("nameres".into(), variant_name(n)),
        NumbatError::TypeCheckError(t) => ("type".into(), variant_name(t)),
        NumbatError::RuntimeError(r) => ("runtime".into(), variant_name(&r.kind)),
    }
}

/// run one input; never panics (a panic is reported as outcome "panic")
pub fn run_input(ctx: &mut Context, code: &str) -> StepResult {
    let out: Arc<Mutex<Vec<String>>> = Arc::new(Mutex::new(vec![]));
    let out2 = out.clone();
    let mut settings = InterpreterSettings {
        print_fn: Box::new(move |m: &numbat::markup::Markup| {
            out2.lock().unwrap().push(m.to_string());
        }),
    };
    let r = std::panic::catch_unwind(std::panic::AssertUnwindSafe(|| {
        match ctx.interpret_with_settings(&mut settings, code, CodeSource::Text) {
            Ok((stmts, res)) => {
                use numbat::pretty_print::PrettyPrint;
                let echo = stmts.iter().map(|s| s.pretty_print().to_string()).collect();
                let value = match res {
                    InterpreterResult::Value(v) => Some(v),
                    InterpreterResult::Continue => None,
                };
                ("ok".to_string(), String::new(), String::new(), value, echo)
            }
            Err(e) => {
                let (o, k) = classify(&e);
                // rendering the message is a separate step: a panic there does not change the outcome class
                let msg = std::panic::catch_unwind(std::panic::AssertUnwindSafe(|| e.to_string()))
                    .unwrap_or_else(|_| "<PANIC while rendering the error message>".to_string());
                (o, k, msg, None, vec![])
            }
        }
    }));
    let printed = out.lock().unwrap().clone();
    match r {
        Ok((outcome, kind, message, value, echo)) => StepResult { outcome, kind, message, out: printed, value, echo },
        Err(p) => {
            let msg = p.downcast_ref::<String>().cloned().or_else(|| p.downcast_ref::<&str>().map(|s| s.to_string())).unwrap_or_default();
            StepResult { outcome: "panic".into(), kind: "panic".into(), message: msg, out: printed, value: None, echo: vec![] }
        }
    }
}

pub fn value_text(v: &Option<Value>) -> J {
    match v {
        None => J::Null,
        Some(v) => J::String(v.to_string()),
    }
}

pub fn names(ctx: &Context) -> (BTreeSet<String>, BTreeSet<String>, BTreeSet<String>, BTreeSet<String>) {
    (
        ctx.variable_names().map(|s| s.to_string()).collect(),
        ctx.function_names().map(|s| s.to_string()).collect(),
        ctx.unit_names().iter().flatten().map(|s| s.to_string()).collect(),
        ctx.dimension_names().iter().map(|s| s.to_string()).collect(),
    )
}

pub struct Baseline {
    vars: BTreeSet<String>,
    fns: BTreeSet<String>,
    units: BTreeSet<String>,
    dims: BTreeSet<String>,
}

pub fn baseline(ctx: &Context) -> Baseline {
    let (vars, fns, units, dims) = names(ctx);
    Baseline { vars, fns, units, dims }
}

/// observation of a session: names defined since the baseline + result of each probe on a clone
pub fn observe(ctx: &Context, base: &Baseline, probes: &[String]) -> J {
    let (vars, fns, units, dims) = names(ctx);
    let d = |a: &BTreeSet<String>, b: &BTreeSet<String>| a.difference(b).cloned().collect::<Vec<_>>();
    let mut pr = vec![];
    for p in probes {
        let mut c = ctx.clone();
        let r = run_input(&mut c, p);
        let (v2, _, _, _) = names(&c);
        pr.push(json!({"text": p, "outcome": r.outcome, "kind": r.kind, "res": value_text(&r.value), "out": r.out,
                       "vars": d(&v2, &base.vars)}));
    }
    json!({"vars": d(&vars, &base.vars), "fns": d(&fns, &base.fns), "units": d(&units, &base.units),
           "dims": d(&dims, &base.dims), "probes": pr})
}

fn run_case(case: &J) -> J {
    let modules: Vec<(String, String)> = case["modules"].as_object().map(|m| {
        m.iter().map(|(k, v)| (k.clone(), v.as_str().unwrap().to_string())).collect()
    }).unwrap_or_default();
    let probes: Vec<String> = case["probes"].as_array().map(|a| a.iter().map(|s| s.as_str().unwrap().to_string()).collect()).unwrap_or_default();
    let builtin = case["builtin"].as_bool().unwrap_or(false);
    let mut ctx = new_context(&modules, builtin);
    if let Some(p) = case["prelude"].as_str() {
        if !p.is_empty() {
            let r = run_input(&mut ctx, p);
            if r.outcome != "ok" {
                return json!({"id": case["id"], "error": format!("prelude failed: {}", r.message)});
            }
        }
    }
    let base = baseline(&ctx);
    let check_c06 = case["check_c06"].as_bool().unwrap_or(true);
    let obs_each = case["obs_each"].as_bool().unwrap_or(false);
    let mut steps = vec![];
    let mut c06 = vec![];
    for (i, s) in case["steps"].as_array().unwrap().iter().enumerate() {
        let code = s.as_str().unwrap();
        let before = if check_c06 { Some(observe(&ctx, &base, &probes)) } else { None };
        let r = run_input(&mut ctx, code);
        let mut step = json!({"outcome": r.outcome, "kind": r.kind, "msg": r.message, "out": r.out, "res": value_text(&r.value), "echo": r.echo});
        if r.outcome != "ok" && check_c06 {
            let after = observe(&ctx, &base, &probes);
            let before = before.unwrap();
            if before != after {
                c06.push(json!({"step": i, "before": before, "after": after}));
            }
        }
        if obs_each {
            step["obs"] = observe(&ctx, &base, &probes);
        }
        steps.push(step);
        if r.outcome == "panic" { break; }
    }
    let obs = observe(&ctx, &base, &probes);
    json!({"id": case["id"], "steps": steps, "obs": obs, "c06": c06})
}

/// session-run --cases <ndjson> --out <ndjson> [--threads N]
/// case: {id, prelude, modules:{name:text}, builtin:bool, steps:[text], probes:[text], check_c06:bool, obs_each:bool}
pub fn run(args: &[String]) -> i32 {
    let cases = read_ndjson(arg(args, "--cases").expect("--cases"));
    let threads = arg_u64(args, "--threads", 16) as usize;
    let results: Vec<J> = par_map(&cases, threads, run_case);
    let mut out = Out::new(arg(args, "--out"));
    for r in &results {
        out.line(r);
    }
    out.flush();
    0
}

// ------------------------------------------------------------------------------------------------
// C07: incremental vs batched vs split vs save/replay vs clone

fn make_ctx(case: &J) -> Result<(Context, Baseline), String> {
    let modules: Vec<(String, String)> = case["modules"].as_object().map(|m| {
        m.iter().map(|(k, v)| (k.clone(), v.as_str().unwrap().to_string())).collect()
    }).unwrap_or_default();
    let builtin = case["builtin"].as_bool().unwrap_or(false);
    let mut ctx = new_context(&modules, builtin);
    if let Some(p) = case["prelude"].as_str() {
        if !p.is_empty() {
            let r = run_input(&mut ctx, p);
            if r.outcome != "ok" {
                return Err(format!("prelude failed: {}", r.message));
            }
        }
    }
    let base = baseline(&ctx);
    Ok((ctx, base))
}

struct RunSummary {
    outcomes: Vec<String>,
    out: Vec<String>,
    last_res: J,
    obs: J,
}

fn run_all(ctx: &mut Context, base: &Baseline, probes: &[String], inputs: &[String]) -> RunSummary {
    let mut outcomes = vec![];
    let mut out = vec![];
    let mut last_res = J::Null;
    for i in inputs {
        let r = run_input(ctx, i);
        outcomes.push(r.outcome.clone());
        if r.outcome == "ok" {
            out.extend(r.out);
            if r.value.is_some() {
                last_res = value_text(&r.value);
            }
        }
    }
    RunSummary { outcomes, out, last_res, obs: observe(ctx, base, probes) }
}

fn run_c07_case(case: &J, dir: &str) -> J {
    let probes: Vec<String> = case["probes"].as_array().map(|a| a.iter().map(|s| s.as_str().unwrap().to_string()).collect()).unwrap_or_default();
    let inputs: Vec<String> = case["steps"].as_array().unwrap().iter().map(|s| s.as_str().unwrap().to_string()).collect();
    let mut problems: Vec<String> = vec![];
    let (mut a, base) = match make_ctx(case) { Ok(x) => x, Err(e) => return json!({"id": case["id"], "error": e}) };
    // 1. incremental
    let inc = run_all(&mut a, &base, &probes, &inputs);
    let all_ok = inc.outcomes.iter().all(|o| o == "ok");
    let same = |name: &str, r: &RunSummary, problems: &mut Vec<String>| {
        if r.obs != inc.obs { problems.push(format!("{name}: observation differs from incremental run")); }
        if r.out != inc.out { problems.push(format!("{name}: output {:?} vs incremental {:?}", r.out, inc.out)); }
        if r.last_res != inc.last_res { problems.push(format!("{name}: result {} vs incremental {}", r.last_res, inc.last_res)); }
    };
    if all_ok && !inputs.is_empty() {
        // 2. batch
        let (mut b, base_b) = make_ctx(case).unwrap();
        let joined = inputs.join("\n");
        let r = run_all(&mut b, &base_b, &probes, &[joined]);
        if r.outcomes[0] != "ok" { problems.push(format!("batch: outcome {}", r.outcomes[0])); }
        same("batch", &r, &mut problems);
        // 3. every split point
        for k in 1..inputs.len() {
            let (mut c, base_c) = make_ctx(case).unwrap();
            let parts = vec![inputs[..k].join("\n"), inputs[k..].join("\n")];
            let r = run_all(&mut c, &base_c, &probes, &parts);
            if r.outcomes.iter().any(|o| o != "ok") { problems.push(format!("split@{k}: outcomes {:?}", r.outcomes)); }
            same(&format!("split@{k}"), &r, &mut problems);
        }
    }
    // 4. save / replay through the command runner (the REPL loop of the CLI: commands first, then interpret,
    //    then push_to_history)
    {
        use numbat::command::{CommandControlFlow, CommandRunner};
        use numbat::session_history::SessionHistory;
        let (mut c, _) = make_ctx(case).unwrap();
        let mut runner: CommandRunner<()> = CommandRunner::new().enable_save(SessionHistory::new());
        for line in &inputs {
            match runner.try_run_command(line, &mut c, &mut ()) {
                Ok(CommandControlFlow::NotACommand) => {}
                _ => { problems.push(format!("save: input {line:?} taken as a command")); continue; }
            }
            let r = run_input(&mut c, line);
            runner.push_to_history(line, if r.outcome == "ok" { Ok(()) } else { Err(()) });
        }
        let file = format!("{dir}/save_{}_{:?}.nbt", case["id"], std::thread::current().id()).replace(['(', ')'], "");
        let cmd = format!("save {file}");
        match runner.try_run_command(&cmd, &mut c, &mut ()) {
            Ok(CommandControlFlow::Continue) => {
                let content = std::fs::read_to_string(&file).unwrap_or_default();
                let expected: String = inputs.iter().zip(inc.outcomes.iter()).filter(|(_, o)| *o == "ok").map(|(i, _)| format!("{}\n", i.trim())).collect();
                if content != expected { problems.push(format!("save: file content {content:?} expected {expected:?}")); }
                let (mut d, base_d) = make_ctx(case).unwrap();
                if !content.trim().is_empty() {
                    let r = run_all(&mut d, &base_d, &probes, &[content]);
                    if r.outcomes[0] != "ok" { problems.push(format!("save-replay: outcome {}", r.outcomes[0])); }
                    same("save-replay", &r, &mut problems);
                }
                let _ = std::fs::remove_file(&file);
            }
            other => problems.push(format!("save command failed (ok={})", other.is_ok())),
        }
    }
    // 5. a copied session evolves independently
    for k in 0..inputs.len() {
        let (mut x, base_x) = make_ctx(case).unwrap();
        let _ = run_all(&mut x, &base_x, &probes, &inputs[..k]);
        let mut y = x.clone();
        let obs_x0 = observe(&x, &base_x, &probes);
        let ry = run_all(&mut y, &base_x, &probes, &inputs[k..]);
        if observe(&x, &base_x, &probes) != obs_x0 { problems.push(format!("clone@{k}: original changed while the copy evolved")); }
        let obs_y = observe(&y, &base_x, &probes);
        let rx = run_all(&mut x, &base_x, &probes, &inputs[k..]);
        if observe(&y, &base_x, &probes) != obs_y { problems.push(format!("clone@{k}: copy changed while the original evolved")); }
        if rx.obs != ry.obs || rx.out != ry.out || rx.last_res != ry.last_res || rx.outcomes != ry.outcomes {
            problems.push(format!("clone@{k}: copy and original diverge on the same continuation"));
        }
        if rx.obs != inc.obs { problems.push(format!("clone@{k}: continuation differs from incremental run")); }
    }
    json!({"id": case["id"], "outcomes": inc.outcomes, "out": inc.out, "res": inc.last_res, "obs": inc.obs,
           "all_ok": all_ok, "problems": problems})
}

/// session-c07 --cases <ndjson> --out <ndjson> --dir <scratch dir>
pub fn run_c07(args: &[String]) -> i32 {
    let cases = read_ndjson(arg(args, "--cases").expect("--cases"));
    let dir = arg(args, "--dir").expect("--dir").to_string();
    let threads = arg_u64(args, "--threads", 16) as usize;
    let results: Vec<J> = par_map(&cases, threads, |c| run_c07_case(c, &dir));
    let mut out = Out::new(arg(args, "--out"));
    for r in &results {
        out.line(r);
    }
    out.flush();
    0
}
